#!/usr/bin/env python3
# Regenerates MANIFEST.json from the table below (kept as a script so the per-property text lives in one place).
import json, os
V = os.path.dirname(os.path.abspath(__file__))
CLAIMED = json.load(open(os.path.join(V, "claims.json")))
NA = json.load(open(os.path.join(V, "not_applicable.json")))
checks = []
for pid in sorted(CLAIMED):
    c = CLAIMED[pid]
    checks.append({
        "property_id": pid,
        "quick_cmd": "./check %s --tier quick" % pid,
        "thorough_cmd": "./check %s --tier thorough" % pid,
        "evidence_file": "/verif/evidence/%s.json" % pid,
        "replay_cmd_template": "./check replay {path}",
        "engine": "simnet",
        "level_claimed": {"category": "exploration", "text": c["text"], "design_ref": "DESIGN.md section 6, " + pid},
        "level_note": c["note"],
        "technique": c.get("technique", "deterministic simulation with fault injection: seeded search over schedules and fault sequences, per-step oracles, minimised replay"),
    })
m = {
    "version": 1,
    "setup_cmd": "./check build",
    "hooks": {"guard": "verif", "enable": "go1.26.8 test -c -tags verif (no guarded source hooks were needed: every seam is an existing interface)",
              "baseline_off_cmd": "cd /repo && GOFLAGS=-mod=mod GOPROXY=off GOSUMDB=off go test -vet=off -count=1 ./...",
              "source_commits": [], "add_only": True},
    "engines": [{"name": "simnet", "path": "/verif/sim", "serves_properties": sorted(CLAIMED),
                 "kind_free_text": "in-process deterministic simulator of the und ABCI application: seeded scheduler (mempool/proposer stub), block clock, synctest wall clock, FaultDB disk, replica supervisor with crash/restart, reference models and monitors, trace minimiser"}],
    "checks": checks,
    "not_applicable": NA,
    "notes": "All checks rebuild the harness against /repo's working tree (VERIF_REPO overrides). Exit 2 = harness/build trouble, never a verdict. Known findings: /verif/known_findings.json.",
}
json.dump(m, open(os.path.join(V, "MANIFEST.json"), "w"), indent=1)
print("claimed:", sorted(CLAIMED), "n/a:", [x["property_id"] for x in NA])
