#!/bin/bash
# runs every claimed check once (dev helper): ./runall.sh [budget] [tier]
B=${1:-15}; T=${2:-quick}
cd "$(dirname "$0")"
for p in $(python3 -c "import json;print(' '.join(c['property_id'] for c in json.load(open('MANIFEST.json'))['checks']))"); do
  ./check $p --tier $T --budget $B > /tmp/runall-$p.log 2>&1; rc=$?
  echo "$p rc=$rc $(grep -c '^VIOLATION' /tmp/runall-$p.log) viol $(grep -c '^KNOWN' /tmp/runall-$p.log) known | $(grep '^check' /tmp/runall-$p.log | cut -c1-110)"
  grep '^VIOLATION\|^HARNESS' /tmp/runall-$p.log | cut -c1-400
done
