#!/bin/bash
# Determinism self-test of the machinery (not part of any property verdict):
# N seeds per property, each executed in 8 separate processes (GOMAXPROCS 1, 1, 4, 4, 16, 16, 16, 16),
# event-log hashes must be identical. Usage: ./selftest.sh [N] [props...]
cd "$(dirname "$0")"
N=${1:-10}; shift
PROPS=${@:-C01 C02 C03 C04 C05 C06 C07 C08 C09 C10 C11 C12 C13 C14 C15 C16 C17 C18 C20}
TMP=$(mktemp -d /tmp/selftest.XXXX)
export SIM_KNOWN=$(python3 -c "import json;print(','.join(k['class'] for k in json.load(open('known_findings.json'))['findings']))")
fail=0
for P in $PROPS; do
  for G in 1 1b 4 4b 16 16b 16c 16d; do
    ( SIM_PROP=$P SIM_DET=$N VERIF_SEED=${VERIF_SEED:-11} GOMAXPROCS=${G%[bcd]} .build/simnet.test -test.run '^TestDeterminism$' 2>/dev/null | grep '^DET' > $TMP/$P-$G.txt ) &
  done
  wait
  u=$(md5sum $TMP/$P-*.txt | awk '{print $1}' | sort -u | wc -l)
  l=$(wc -l < $TMP/$P-1.txt)
  if [ "$u" != "1" ] || [ "$l" != "$N" ]; then echo "NONDETERMINISTIC $P (distinct=$u lines=$l)"; diff $TMP/$P-1.txt $TMP/$P-16.txt | head -4; fail=1; else echo "deterministic $P: $N seeds x 8 processes"; fi
done
rm -rf $TMP
exit $fail
