package simnet

// c15.go — genesis export/import fork for C15. At a seeded height node A (the reference) exports
// its state; a fresh node B is initialised from the document and then executes the same
// subsequent blocks; a second fresh node B2 is initialised, committed and exported again.

import (
	"bytes"
	"time"

	"crypto/sha256"
	"encoding/binary"
	"encoding/hex"
	"encoding/json"
	"fmt"
	"math/big"
	"github.com/cosmos/cosmos-sdk/codec"
	"sort"
	"strings"

	dbm "github.com/cometbft/cometbft-db"
	abci "github.com/cometbft/cometbft/abci/types"
	sdk "github.com/cosmos/cosmos-sdk/types"
	"github.com/cosmos/cosmos-sdk/types/module"

	undapp "github.com/unification-com/mainchain/app"
	beacontypes "github.com/unification-com/mainchain/x/beacon/types"
	enttypes "github.com/unification-com/mainchain/x/enterprise/types"
	streamtypes "github.com/unification-com/mainchain/x/stream/types"
	wrkchaintypes "github.com/unification-com/mainchain/x/wrkchain/types"
)

type Fork struct {
	B        *Node
	AtHeight int64
	Followed int
	dead     bool
}

var customModules = []string{enttypes.ModuleName, wrkchaintypes.ModuleName, beacontypes.ModuleName, streamtypes.ModuleName}

func canonicalJSON(raw json.RawMessage) string {
	var v interface{}
	if err := json.Unmarshal(raw, &v); err != nil {
		return string(raw)
	}
	bz, _ := json.Marshal(v) // maps are marshalled with sorted keys
	return string(bz)
}

func storeDigestOn(a *Node, ctx sdk.Context, store string) string {
	w := &World{Ref: a}
	return storeDigest(w, ctx, store, nil)
}

// ExportCap is the number of records per registration a genesis export carries (the statement of
// C15: "retained records (the newest 20,000 per registration)").
const ExportCap = 20000

// exporterDigest is the digest of a store of the exporting chain as an import of its export has
// to reproduce it: identical, except that a WRKChain/BEACON holding more than ExportCap records
// keeps the newest ExportCap of them, with its in-state counters saying so.
func exporterDigest(a *Node, ctx sdk.Context, store string) string {
	if store != wrkchaintypes.StoreKey && store != beacontypes.StoreKey {
		return storeDigestOn(a, ctx, store)
	}
	st := ctx.KVStore(a.App.GetKey(store))
	count := map[string]int{}
	it := st.Iterator([]byte{0x02}, []byte{0x03})
	for ; it.Valid(); it.Next() {
		if k := it.Key(); len(k) == 17 {
			count[string(k[1:9])]++
		}
	}
	it.Close()
	big := false
	for _, c := range count {
		if c > ExportCap {
			big = true
		}
	}
	if !big {
		return storeDigestOn(a, ctx, store)
	}
	// second pass: skip the oldest records beyond the cap, patch the counters of the registration
	seen := map[string]int{}
	lowest := map[string]uint64{}
	h := sha256.New()
	put := func(k, v []byte) {
		var lenbuf [4]byte
		lenbuf[0], lenbuf[1], lenbuf[2], lenbuf[3] = byte(len(k)>>8), byte(len(k)), byte(len(v)>>8), byte(len(v))
		h.Write(lenbuf[:])
		h.Write(k)
		h.Write(v)
	}
	// lowest kept key per big registration
	it = st.Iterator([]byte{0x02}, []byte{0x03})
	for ; it.Valid(); it.Next() {
		k := it.Key()
		if len(k) != 17 {
			continue
		}
		id := string(k[1:9])
		seen[id]++
		if c := count[id]; c > ExportCap && seen[id] == c-ExportCap+1 {
			lowest[id] = binary.BigEndian.Uint64(k[9:17])
		}
	}
	it.Close()
	seen = map[string]int{}
	cdc := a.App.AppCodec()
	all := st.Iterator(nil, nil)
	defer all.Close()
	for ; all.Valid(); all.Next() {
		k, v := all.Key(), all.Value()
		switch {
		case len(k) == 17 && k[0] == 0x02:
			id := string(k[1:9])
			seen[id]++
			if c := count[id]; c > ExportCap && seen[id] <= c-ExportCap {
				continue
			}
		case len(k) == 9 && k[0] == 0x01 && count[string(k[1:9])] > ExportCap:
			id := string(k[1:9])
			if store == wrkchaintypes.StoreKey {
				var wc wrkchaintypes.WrkChain
				cdc.MustUnmarshal(v, &wc)
				wc.NumBlocks, wc.LowestHeight = ExportCap, lowest[id]
				v = cdc.MustMarshal(&wc)
			} else {
				var b beacontypes.Beacon
				cdc.MustUnmarshal(v, &b)
				b.NumInState, b.FirstIdInState = ExportCap, lowest[id]
				v = cdc.MustMarshal(&b)
			}
		}
		put(k, v)
	}
	return hex.EncodeToString(h.Sum(nil)[:12])
}

func (w *World) initFrom(appState []byte, height int64) (*Node, string) {
	n := &Node{Idx: 100, Cfg: DefaultRefCfg(), DB: newLeakDB(dbm.NewMemDB()), AppOpts: appOptsOf(&w.T.Knobs)}
	n.Open()
	req := abci.RequestInitChain{Time: w.Now, ChainId: ChainID, ConsensusParams: InitChainReq(nil).ConsensusParams, Validators: []abci.ValidatorUpdate{}, AppStateBytes: appState, InitialHeight: height}
	p, _ := safely(func() { n.App.InitChain(req) })
	return n, p
}

// importKeepingGenesisTime: `und export` copies genesis_time from the node's old genesis file and
// CometBFT stamps the first block of a chain with genesis_time. Unless the operator edits the
// document, the first block of the chain restarted from an export is therefore *earlier* than
// everything its state remembers (raise times of pending orders, last releases of streams). That
// block must not do what the exporting chain would not do: reject orders whose time limit has not
// passed, or make a later claim pay a period that was already settled before the export.
func (w *World) importKeepingGenesisTime(raw []byte, height int64) {
	w.importAtGenesisTime(raw, height, "C15")
}

func (w *World) importAtGenesisTime(raw []byte, height int64, prop string) {
	w.Probe("c15.import-keeping-genesis-time")
	gt := time.Unix(GenesisTS, 0).UTC()
	n := &Node{Idx: 102, Cfg: DefaultRefCfg(), DB: newLeakDB(dbm.NewMemDB()), AppOpts: appOptsOf(&w.T.Knobs)}
	n.Open()
	req := abci.RequestInitChain{Time: gt, ChainId: ChainID, ConsensusParams: InitChainReq(nil).ConsensusParams, Validators: []abci.ValidatorUpdate{}, AppStateBytes: raw, InitialHeight: height}
	if p, _ := safely(func() { n.App.InitChain(req) }); p != "" {
		return // judged by the import at the current time
	}
	hdr := MakeHeader(height, gt, nil)
	if p, _ := safely(func() { n.App.BeginBlock(abci.RequestBeginBlock{Header: hdr, LastCommitInfo: LastCommit()}) }); p != "" {
		if prop == "C15" {
			w.Violate("C15", "C15/imported-chain-halts/first-block-at-genesis-time", "the first block (stamped with the unchanged genesis_time) after import at %d panics: %s", w.Ref.Height, trunc(p, 300))
		}
		return
	}
	ctx := n.App.BaseApp.NewContext(false, hdr)
	// (a) pending orders: rejected only for a reason the statement knows
	e := w.M.Ent
	for _, id := range sortedU64(e.Orders) {
		if prop != "C15" && prop != "C03" {
			break
		}
		o := e.Orders[id]
		if o.Status != 1 {
			continue
		}
		po, found := n.App.EnterpriseKeeper.GetPurchaseOrder(ctx, id)
		if !found || po.Status != enttypes.StatusRejected {
			continue
		}
		acc, rej := 0, 0
		for _, d := range o.Decisions {
			if d.Decision == 2 {
				acc++
			} else if d.Decision == 3 {
				rej++
			}
		}
		expired := uint64(GenesisTS) >= o.RaiseTime && uint64(GenesisTS)-o.RaiseTime >= e.Limit
		if rej > len(e.Signers)-int(e.MinAccepts) || (expired && uint64(acc) < e.MinAccepts) {
			continue
		}
		w.Violate(prop, prop+"/imported-chain-rejects-pending-order/first-block-at-genesis-time", "order %d (raised at %d, limit %d s, %d accepts, %d rejects of %d signers, min %d) is raised on the exporting chain; the chain started from the export rejects it in its first block, stamped with the unchanged genesis_time %d", id, o.RaiseTime, e.Limit, acc, rej, len(e.Signers), e.MinAccepts, GenesisTS)
		break
	}
	// (b) streams: a claim delivered in that first block must not change what later claims pay
	router := n.App.MsgServiceRouter()
	later := w.Now.Add(time.Hour)
	sm := w.M.Str
	for _, k := range sm.keys() {
		if prop != "C15" && prop != "C11" {
			break
		}
		st := sm.Streams[k]
		if st.Remaining.Sign() <= 0 {
			continue
		}
		ra, err1 := sdk.AccAddressFromBech32(st.Receiver)
		sa, err2 := sdk.AccAddressFromBech32(st.Sender)
		if err1 != nil || err2 != nil {
			continue
		}
		claim := &streamtypes.MsgClaimStream{Sender: st.Sender, Receiver: st.Receiver}
		run := func(c sdk.Context) {
			safely(func() { router.Handler(claim)(c.WithEventManager(sdk.NewEventManager()), claim) })
		}
		c1, _ := ctx.CacheContext()
		run(c1.WithBlockTime(gt))
		run(c1.WithBlockTime(later))
		c2, _ := ctx.CacheContext()
		run(c2.WithBlockTime(later))
		s1, _ := n.App.StreamKeeper.GetStream(c1, ra, sa)
		s2, _ := n.App.StreamKeeper.GetStream(c2, ra, sa)
		w.Probe("c15.claim-in-first-block-at-genesis-time")
		if !s1.Deposit.IsEqual(s2.Deposit) {
			w.Violate(prop, prop+"/same-tx-different-effect/claim-after-first-block-at-genesis-time", "stream %s->%s: a claim at %s leaves %s when the receiver also claimed in the chain's first block (stamped with the unchanged genesis_time), %s otherwise", st.Sender, st.Receiver, later.Format(time.RFC3339), s1.Deposit, s2.Deposit)
			break
		}
		// (c) the sender changes the flow rate in that first block: the settlement it implies releases
		// nothing (no funded second has passed since the previous release), and the next claim, made
		// before the newly advertised deposit-zero time, pays the new rate for the whole seconds since
		// the previous release - which lies before the export, not at the genesis time
		s0, ok0 := n.App.StreamKeeper.GetStream(ctx, ra, sa)
		if !ok0 || !s0.LastOutflowTime.After(gt) || !s0.Deposit.Amount.IsPositive() {
			continue
		}
		newRate := int64(1)
		if s0.FlowRate == 1 {
			newRate = 2
		}
		upd := &streamtypes.MsgUpdateFlowRate{Sender: st.Sender, Receiver: st.Receiver, FlowRate: newRate}
		c3, _ := ctx.CacheContext()
		var uerr error
		if p, _ := safely(func() {
			_, uerr = router.Handler(upd)(c3.WithBlockTime(gt).WithEventManager(sdk.NewEventManager()), upd)
		}); p != "" || uerr != nil {
			continue // whether the update must succeed is not this oracle's subject
		}
		s3, _ := n.App.StreamKeeper.GetStream(c3, ra, sa)
		if !s3.Deposit.IsEqual(s0.Deposit) {
			w.Violate(prop, prop+"/release-without-funded-time/rate-change-in-first-block-at-genesis-time", "stream %s->%s: a flow-rate change in the chain's first block (stamped with the unchanged genesis_time %d, before the previous release at %s) released funds: deposit %s -> %s", st.Sender, st.Receiver, GenesisTS, s0.LastOutflowTime.UTC().Format(time.RFC3339), s0.Deposit, s3.Deposit)
			break
		}
		span := s3.DepositZeroTime.Sub(s0.LastOutflowTime)
		if span < 4*time.Second {
			continue
		}
		at := s0.LastOutflowTime.Add(span / 2)
		secs := int64(at.Sub(s0.LastOutflowTime) / time.Second)
		if secs < 1 {
			continue
		}
		want := new(big.Int).Mul(big.NewInt(secs), big.NewInt(newRate))
		if want.Cmp(s3.Deposit.Amount.BigInt()) > 0 {
			want = s3.Deposit.Amount.BigInt()
		}
		var cerr error
		if p, _ := safely(func() {
			_, cerr = router.Handler(claim)(c3.WithBlockTime(at).WithEventManager(sdk.NewEventManager()), claim)
		}); p != "" || cerr != nil {
			continue
		}
		s4, _ := n.App.StreamKeeper.GetStream(c3, ra, sa)
		paid := new(big.Int).Sub(s3.Deposit.Amount.BigInt(), s4.Deposit.Amount.BigInt())
		w.Probe("c15.rate-change-in-first-block-at-genesis-time")
		if paid.Cmp(want) != 0 {
			w.Violate(prop, prop+"/release-differs-from-rate/claim-after-rate-change-in-first-block-at-genesis-time", "stream %s->%s: previous release %s, flow rate changed to %d/s in the chain's first block (unchanged genesis_time %d), advertised deposit-zero time %s; a claim at %s (%d whole seconds after the previous release) released %s, the agreed rate gives %s", st.Sender, st.Receiver, s0.LastOutflowTime.UTC().Format(time.RFC3339), newRate, GenesisTS, s3.DepositZeroTime.UTC().Format(time.RFC3339), at.UTC().Format(time.RFC3339), secs, paid, want)
			break
		}
	}
	// (d) the property's own read-back oracles once that first block is committed: what was recorded
	// reads back unchanged (C07) and every funded stream can be claimed, cancelled and topped up (C12)
	// also while the block clock stands before the times held in state
	if prop != "C07" && prop != "C12" {
		return
	}
	if p, _ := safely(func() {
		n.App.EndBlock(abci.RequestEndBlock{Height: height})
		n.releaseDangling()
		n.App.Commit()
	}); p != "" {
		return
	}
	w.Probe("c15.first-block-at-genesis-time-committed")
	wb := &World{IsShadow: true, T: w.T, Actors: w.Actors, Ref: n, Hdr: hdr, Now: gt, M: w.M, St: w.St, PropOverride: w.PropOverride, KnownClasses: w.KnownClasses, BlockIdx: w.BlockIdx, Log: w.Log}
	for _, m := range w.Mons {
		switch m.(type) {
		case *monC07:
			if prop == "C07" {
				m.AfterBlock(wb)
			}
		case *monC12:
			if prop == "C12" {
				m.AfterBlock(wb)
			}
		}
	}
	for _, v := range wb.Viol {
		w.Violate(v.Property, v.Class+"/first-block-at-genesis-time", "on the chain initialised from the export of height %d, in its first block (stamped with the unchanged genesis_time %d): %s", w.Ref.Height, GenesisTS, v.Detail)
	}
}

// importForProp (C11, C03, C12, C07): the property's oracles - C11's release arithmetic, say - also have to hold on a chain restarted from an export whose
// first block carries the unchanged genesis time (block time earlier than every stream's last release).
func (w *World) importForProp(prop string) {
	var raw []byte
	var height int64
	if p, _ := safely(func() {
		exp := &Node{Idx: 104, Cfg: DefaultRefCfg(), DB: w.Ref.DB, AppOpts: appOptsOf(&w.T.Knobs)}
		exp.Open()
		if mod, pp := exportPreflight(exp); mod != "" {
			panic("genesis export of module " + mod + " panics: " + pp)
		}
		e, err := exp.App.ExportAppStateAndValidators(false, nil, nil)
		if err != nil {
			panic(err)
		}
		raw, height = e.AppState, e.Height
	}); p != "" {
		return
	}
	w.importAtGenesisTime(raw, height, prop)
}

// importLater: a chain is restarted from an export some time after the export was taken (the
// operator sets genesis_time to the agreed restart time). The import has to succeed then as well.
func (w *World) importLater(raw []byte, height int64) {
	w.Probe("c15.import-later")
	later := w.Now.Add(2 * time.Hour)
	n := &Node{Idx: 103, Cfg: DefaultRefCfg(), DB: newLeakDB(dbm.NewMemDB()), AppOpts: appOptsOf(&w.T.Knobs)}
	n.Open()
	req := abci.RequestInitChain{Time: later, ChainId: ChainID, ConsensusParams: InitChainReq(nil).ConsensusParams, Validators: []abci.ValidatorUpdate{}, AppStateBytes: raw, InitialHeight: height}
	p, _ := safely(func() { n.App.InitChain(req) })
	if p == "" {
		return
	}
	site := importSite(p)
	if strings.Contains(p, "expiration is before current block time") {
		site = "fee-allowance-expired-since-export"
	}
	w.Violate("C15", "C15/import-fails-when-restarted-later/"+site, "InitChain from the export of height %d, two hours after it was taken, panics: %s", w.Ref.Height, trunc(p, 300))
}

// takeFork exports the reference node and builds the imported nodes. Only armed for C15.
func (w *World) takeFork() {
	if w.armedC08 {
		w.importAndCheckCounters()
	}
	if w.armedShadow && w.shadow == nil {
		w.takeShadow()
	}
	switch w.PropOverride {
	case "C11", "C03", "C12", "C07":
		w.importForProp(w.PropOverride)
	}
	if !w.armedC15 || w.Fork != nil {
		return
	}
	w.Probe("c15.export")
	a := w.Ref
	var expA, expB2 struct {
		state  map[string]json.RawMessage
		height int64
	}
	var raw []byte
	if p, _ := safely(func() {
		// `und export` is a command of a stopped node: a fresh process opens the database and
		// exports the last committed state. (Exporting from the running application object would
		// read its check state, i.e. include whatever the mempool connection did since the commit.)
		exp := &Node{Idx: 101, Cfg: DefaultRefCfg(), DB: a.DB, AppOpts: appOptsOf(&w.T.Knobs)}
		exp.Open()
		if mod, pp := exportPreflight(exp); mod != "" {
			panic("genesis export of module " + mod + " panics: " + pp)
		}
		e, err := exp.App.ExportAppStateAndValidators(false, nil, nil)
		if err != nil {
			panic(err)
		}
		raw = e.AppState
		expA.height = e.Height
	}); p != "" {
		w.Violate("C15", "C15/export-fails", "export at height %d: %s", a.Height, p)
		return
	}
	if err := json.Unmarshal(raw, &expA.state); err != nil {
		w.Violate("C15", "C15/export-fails", "export is not JSON: %v", err)
		return
	}
	// (0) the document passes the four modules' own validation (`und validate-genesis`), which an
	// operator runs before starting a chain from it
	for _, mod := range customModules {
		var verr error
		if p, _ := safely(func() {
			hg, ok := undapp.ModuleBasics[mod].(module.HasGenesisBasics)
			if !ok {
				panic("module without genesis basics")
			}
			verr = hg.ValidateGenesis(a.App.AppCodec(), a.App.TxConfig(), expA.state[mod])
		}); p != "" {
			verr = fmt.Errorf("panic: %s", p)
		}
		if verr != nil {
			w.Violate("C15", "C15/exported-document-fails-validation/"+mod, "the %s section of the export at height %d fails the module's genesis validation: %v", mod, a.Height, verr)
		}
	}
	// B: follows the chain
	b, p := w.initFrom(raw, expA.height)
	if p != "" {
		w.Violate("C15", "C15/import-fails/"+importSite(p), "InitChain from the export of height %d panics: %s", a.Height, trunc(p, 300))
		return
	}
	w.Fork = &Fork{B: b, AtHeight: a.Height}
	w.importKeepingGenesisTime(raw, expA.height)
	w.importLater(raw, expA.height)
	bctx := b.App.BaseApp.NewContext(false, MakeHeader(expA.height, w.Now, nil))
	actx := w.CCtx()
	// (3) observable equality of the four modules
	for _, s := range customStores {
		da, db := exporterDigest(a, actx, s), storeDigestOn(b, bctx, s)
		if s == wrkchaintypes.StoreKey || s == beacontypes.StoreKey {
			if w.T.Knobs.BigReg != nil {
				w.Probe("c15.export-beyond-record-cap")
			}
		}
		if da != db {
			w.Violate("C15", "C15/state-differs-after-import/"+s, "module %s: state of the importing chain differs from the exporting chain at height %d%s", s, a.Height, w.describeDiff(a, actx, b, bctx, s))
		}
	}
	// (2) registered invariants on B
	for _, r := range b.App.CrisisKeeper.Routes() {
		var msg string
		var broken bool
		if p, _ := safely(func() { msg, broken = r.Invar(bctx) }); p != "" {
			w.Violate("C15", "C15/invariant-panics-after-import/"+r.ModuleName+"-"+r.Route, "%s", trunc(p, 200))
		} else if broken {
			w.Violate("C15", "C15/invariant-broken-after-import/"+r.ModuleName+"-"+r.Route, "%s", trunc(msg, 300))
		}
	}
	// (4) export again from a committed copy
	b2, p := w.initFrom(raw, expA.height)
	if p == "" {
		var raw2 []byte
		if p2, _ := safely(func() {
			b2.releaseDangling()
			b2.App.Commit()
			if mod, pp := exportPreflight(b2); mod != "" {
				panic("genesis export of module " + mod + " panics: " + pp)
			}
			e, err := b2.App.ExportAppStateAndValidators(false, nil, nil)
			if err != nil {
				panic(err)
			}
			raw2 = e.AppState
		}); p2 != "" {
			w.Violate("C15", "C15/re-export-fails", "%s", trunc(p2, 300))
		} else if err := json.Unmarshal(raw2, &expB2.state); err == nil {
			for _, mod := range customModules {
				if canonicalJSON(expA.state[mod]) != canonicalJSON(expB2.state[mod]) {
					w.Violate("C15", "C15/re-export-differs/"+mod, "module %s: exporting the imported state gives a different document: %s", mod, firstJSONDiff(expA.state[mod], expB2.state[mod]))
				}
			}
		}
	}
}

func firstJSONDiff(a, b json.RawMessage) string {
	ca, cb := canonicalJSON(a), canonicalJSON(b)
	n := len(ca)
	if len(cb) < n {
		n = len(cb)
	}
	i := 0
	for i < n && ca[i] == cb[i] {
		i++
	}
	lo := i - 60
	if lo < 0 {
		lo = 0
	}
	hiA, hiB := i+80, i+80
	if hiA > len(ca) {
		hiA = len(ca)
	}
	if hiB > len(cb) {
		hiB = len(cb)
	}
	return fmt.Sprintf("first: ...%s | second: ...%s", ca[lo:hiA], cb[lo:hiB])
}

// describeDiff lists a few differing keys of a store on two nodes.
func (w *World) describeDiff(a *Node, actx sdk.Context, b *Node, bctx sdk.Context, store string) string {
	dump := func(n *Node, ctx sdk.Context) map[string]string {
		out := map[string]string{}
		it := ctx.KVStore(n.App.GetKey(store)).Iterator(nil, nil)
		defer it.Close()
		for ; it.Valid(); it.Next() {
			out[fmt.Sprintf("%X", it.Key())] = fmt.Sprintf("%X", it.Value())
		}
		return out
	}
	ma, mb := dump(a, actx), dump(b, bctx)
	keys := map[string]bool{}
	for k := range ma {
		keys[k] = true
	}
	for k := range mb {
		keys[k] = true
	}
	ks := make([]string, 0, len(keys))
	for k := range keys {
		ks = append(ks, k)
	}
	sort.Strings(ks)
	s := ""
	n := 0
	for _, k := range ks {
		if ma[k] != mb[k] {
			s += fmt.Sprintf("; key %s: exporter %s importer %s", trunc(k, 40), trunc(orMissing(ma[k]), 60), trunc(orMissing(mb[k]), 60))
			n++
			if n >= 3 {
				break
			}
		}
	}
	return s
}

func orMissing(s string) string {
	if s == "" {
		return "<missing>"
	}
	return s
}

// follow executes the block the reference just committed on the imported node and compares.
func (f *Fork) follow(w *World, rec *BlockRec) {
	if f.dead || rec.Height <= f.AtHeight {
		return
	}
	b := f.B
	hdr := MakeHeader(rec.Height, rec.Time, nil)
	if p, _ := safely(func() { b.App.BeginBlock(abci.RequestBeginBlock{Header: hdr, LastCommitInfo: LastCommit()}) }); p != "" {
		w.Violate("C15", "C15/imported-chain-halts/BeginBlock", "height %d after import at %d: %s", rec.Height, f.AtHeight, trunc(p, 300))
		f.dead = true
		return
	}
	for i, bz := range rec.Txs {
		r := b.App.DeliverTx(abci.RequestDeliverTx{Tx: bz})
		if r.Code != rec.Res[i].Code || r.Codespace != rec.Res[i].Codespace || (r.Code == 0 && !bytes.Equal([]byte(fmt.Sprintf("%x", r.Data)), []byte(rec.Res[i].Data))) {
			w.Violate("C15", "C15/same-tx-different-effect", "height %d tx %d after import at %d: exporter code %d/%s, importer code %d/%s (%s)", rec.Height, i, f.AtHeight, rec.Res[i].Code, rec.Res[i].Codespace, r.Code, r.Codespace, trunc(r.Log, 160))
		}
	}
	if p, _ := safely(func() { b.App.EndBlock(abci.RequestEndBlock{Height: rec.Height}) }); p != "" {
		w.Violate("C15", "C15/imported-chain-halts/EndBlock", "height %d: %s", rec.Height, trunc(p, 300))
		f.dead = true
		return
	}
	b.releaseDangling()
	if p, _ := safely(func() { b.App.Commit() }); p != "" {
		w.Violate("C15", "C15/imported-chain-halts/Commit", "height %d: %s", rec.Height, trunc(p, 300))
		f.dead = true
		return
	}
	f.Followed++
	w.Probe("c15.block-followed")
	actx := w.CCtx()
	bctx := b.App.BaseApp.NewUncachedContext(false, hdr)
	for _, s := range customStores {
		if exporterDigest(w.Ref, actx, s) != storeDigestOn(b, bctx, s) {
			w.Violate("C15", "C15/state-diverges-after-import/"+s, "module %s differs at height %d (import at %d)%s", s, rec.Height, f.AtHeight, w.describeDiff(w.Ref, actx, b, bctx, s))
			f.dead = true
		}
	}
}

// monC15 only arms the fork machinery (the checks live in takeFork / follow).
type monC15 struct{ BaseMonitor }

func (m *monC15) Name() string  { return "C15" }
func (m *monC15) Init(w *World) { w.armedC15 = true }
func (m *monC15) AfterBlock(w *World) {
	if len(w.M.Ent.Orders) > 0 {
		w.Probe("c15.state-has-orders")
	}
}

// importSite classifies an InitChain panic by the module that raised it.
func importSite(p string) string {
	switch {
	case strings.Contains(p, "expected module account was"):
		return "gov-module-account-ne-deposits"
	case strings.Contains(p, "invariant broken"):
		i := strings.Index(p, "invariant broken: ")
		rest := p[i+len("invariant broken: "):]
		if j := strings.IndexAny(rest, ":\n"); j > 0 {
			rest = rest[:j]
		}
		return "invariant-" + strings.TrimSpace(rest)
	case strings.Contains(p, "enterprise module balance"):
		return "enterprise-escrow-ne-total-locked"
	case strings.Contains(p, "stream module acc balance"):
		return "stream-escrow-ne-deposits"
	}
	return "other"
}

// importAndCheckCounters (C08 across an export/import): the state is exported the way `und export`
// does, a fresh chain is initialised from the document, and on that chain the reported counters of
// every WRKChain and BEACON must match what can actually be queried. Whether the import works at
// all, and whether it is lossless, is C15's subject and is not judged here.
func (w *World) importAndCheckCounters() {
	var raw []byte
	var height int64
	if p, _ := safely(func() {
		exp := &Node{Idx: 101, Cfg: DefaultRefCfg(), DB: w.Ref.DB, AppOpts: appOptsOf(&w.T.Knobs)}
		exp.Open()
		if mod, pp := exportPreflight(exp); mod != "" {
			w.Probe("export.preflight-panic")
			panic("genesis export of module " + mod + " panics: " + pp)
		}
		e, err := exp.App.ExportAppStateAndValidators(false, nil, nil)
		if err != nil {
			panic(err)
		}
		raw, height = e.AppState, e.Height
	}); p != "" {
		return
	}
	b, p := w.initFrom(raw, height)
	if p != "" {
		return
	}
	w.Probe("c08.imported-chain-checked")
	wb := &World{Ref: b, St: w.St, T: w.T}
	bctx := b.App.BaseApp.NewContext(false, MakeHeader(height, w.Now, nil))
	for _, v := range regViews {
		var ids []uint64
		if v.kind == "wrk" {
			for _, c := range b.App.WrkchainKeeper.GetAllWrkChains(bctx) {
				ids = append(ids, c.WrkchainId)
			}
		} else {
			for _, c := range b.App.BeaconKeeper.GetAllBeacons(bctx) {
				ids = append(ids, c.BeaconId)
			}
		}
		for _, id := range ids {
			o := v.obs(wb, bctx, id)
			keys := v.keysInState(wb, bctx, id)
			first := uint64(0)
			if len(keys) > 0 {
				first = keys[0]
			}
			if !o.Found || o.StoreErr != nil {
				continue
			}
			if len(keys) > ExportCap-1 {
				w.Probe("c08.imported-registration-at-export-cap")
			}
			if o.Num != uint64(len(keys)) || o.Used != uint64(len(keys)) || (len(keys) > 0 && o.First != first) {
				w.Violate("C08", "C08/"+v.kind+"/counters-differ-from-state/after-import", "chain initialised from the export of height %d: %s %d reports num=%d used=%d first=%d; state holds %d records, first=%d", height, v.kind, id, o.Num, o.Used, o.First, len(keys), first)
			}
			// the limit changes only by a successful purchase: an import keeps it
			if ro := v.obs(w, w.CCtx(), id); ro.Found && ro.StoreErr == nil && ro.Limit != o.Limit {
				w.Violate("C08", "C08/"+v.kind+"/limit-changed-by-import", "%s %d has in-state limit %d on the exporting chain and %d on the chain initialised from its export", v.kind, id, ro.Limit, o.Limit)
			}
			if uint64(len(keys)) > o.Limit {
				w.Violate("C08", "C08/"+v.kind+"/more-records-than-limit/after-import", "%s %d holds %d records with limit %d after import", v.kind, id, len(keys), o.Limit)
			}
		}
	}
}

// ---------------------------------------------------------------------------------------------
// shadow: a chain initialised from an export of the reference that then executes the same blocks.
// Under C07/C08/C09 the property's own read-back oracles are applied to it after every block
// (classes get the suffix /after-import): what was accepted stays readable, counters match, owners
// and metadata stay, also across a genesis export/import - the way chains are upgraded. Whether the
// import works at all and is lossless as a whole is C15's subject: failures to import, and
// transaction results that differ, are not judged here.

type shadowChain struct {
	B    *Node
	At   int64
	dead bool
}

func (w *World) takeShadow() {
	var raw []byte
	var height int64
	if p, _ := safely(func() {
		exp := &Node{Idx: 101, Cfg: DefaultRefCfg(), DB: w.Ref.DB, AppOpts: appOptsOf(&w.T.Knobs)}
		exp.Open()
		if mod, pp := exportPreflight(exp); mod != "" {
			w.Probe("export.preflight-panic")
			panic("genesis export of module " + mod + " panics: " + pp)
		}
		e, err := exp.App.ExportAppStateAndValidators(false, nil, nil)
		if err != nil {
			panic(err)
		}
		raw, height = e.AppState, e.Height
	}); p != "" {
		return
	}
	b, p := w.initFrom(raw, height)
	if p != "" {
		return
	}
	w.shadow = &shadowChain{B: b, At: w.Ref.Height}
	w.Probe("shadow.chain-imported")
	// registrations the models do not know (injected through genesis) must survive as well
	actx := w.CCtx()
	bctx := b.App.BaseApp.NewContext(false, MakeHeader(height, w.Now, nil))
	for _, c := range w.Ref.App.WrkchainKeeper.GetAllWrkChains(actx) {
		o, found := b.App.WrkchainKeeper.GetWrkChain(bctx, c.WrkchainId)
		if !found || o.Owner != c.Owner || o.Moniker != c.Moniker || o.Name != c.Name || o.Genesis != c.Genesis || o.Type != c.Type || o.RegTime != c.RegTime {
			w.Violate("C09", "C09/wrk/registration-lost-or-changed-by-import", "WRKChain %d (%q, owner %s) of the exporting chain is %v on the chain initialised from its export (found=%v)", c.WrkchainId, c.Moniker, c.Owner, o, found)
			break
		}
	}
	for _, c := range w.Ref.App.BeaconKeeper.GetAllBeacons(actx) {
		o, found := b.App.BeaconKeeper.GetBeacon(bctx, c.BeaconId)
		if !found || o.Owner != c.Owner || o.Moniker != c.Moniker || o.Name != c.Name || o.RegTime != c.RegTime {
			w.Violate("C09", "C09/bcn/registration-lost-or-changed-by-import", "BEACON %d (%q, owner %s) of the exporting chain is %v on the chain initialised from its export (found=%v)", c.BeaconId, c.Moniker, c.Owner, o, found)
			break
		}
	}
}

func (w *World) followShadow(rec *BlockRec) {
	sh := w.shadow
	if sh == nil || sh.dead || rec.Height <= sh.At {
		return
	}
	b := sh.B
	hdr := MakeHeader(rec.Height, rec.Time, nil)
	if p, _ := safely(func() {
		b.App.BeginBlock(abci.RequestBeginBlock{Header: hdr, LastCommitInfo: LastCommit()})
		for _, bz := range rec.Txs {
			b.App.DeliverTx(abci.RequestDeliverTx{Tx: bz})
		}
		b.App.EndBlock(abci.RequestEndBlock{Height: rec.Height})
		b.releaseDangling()
		b.App.Commit()
	}); p != "" {
		sh.dead = true
		return
	}
	w.Probe("shadow.block-followed")
	wb := &World{IsShadow: true, T: w.T, Actors: w.Actors, Ref: b, Hdr: hdr, Now: w.Now, M: w.M, St: w.St, PropOverride: w.PropOverride, KnownClasses: w.KnownClasses, BlockIdx: w.BlockIdx, Log: w.Log}
	for _, m := range w.Mons {
		switch m.(type) {
		case *monC07, *monC08, *monC09:
			m.AfterBlock(wb)
		case *monC04:
			if w.PropOverride == "C04" {
				m.AfterBlock(wb)
			}
		case *monC12:
			// from every state of the imported chain, too, the exits of a funded stream are open
			if w.PropOverride == "C12" {
				m.AfterBlock(wb)
			}
		case *monC17:
			if w.PropOverride == "C17" {
				m.AfterBlock(wb)
			}
		case *monC03:
			if w.PropOverride == "C03" {
				shadowOrders(w, wb)
			}
		}
	}
	for _, v := range wb.Viol {
		w.Violate(v.Property, v.Class+"/after-import", "on the chain initialised from the export of height %d: %s", sh.At, v.Detail)
	}
	if len(wb.Viol) > 0 {
		sh.dead = true
	}
}

// exportPreflight calls the genesis export of the four custom modules one after the other on the
// node, under recover(). The real export (ExportAppStateAndValidators) runs every module's export in
// a goroutine of its own, where a panic cannot be recovered and takes the whole process down - as it
// does `und export`. It returns the module whose export panics ("" if none) and the panic text.
func exportPreflight(n *Node) (string, string) {
	ctx := n.App.BaseApp.NewContext(true, MakeHeader(n.App.LastBlockHeight(), time.Unix(GenesisTS, 0), nil))
	for _, name := range customModules {
		m, ok := n.App.ModuleManager.Modules[name].(interface {
			ExportGenesis(sdk.Context, codec.JSONCodec) json.RawMessage
		})
		if !ok {
			continue
		}
		if p, _ := safely(func() { m.ExportGenesis(ctx, n.App.AppCodec()) }); p != "" {
			return name, p
		}
	}
	return "", ""
}
