package simnet

import (
	"fmt"
	"os"
	"testing"
)

// TestDebugTx replays a file and prints the full log of every failing tx (debug aid).
func TestDebugTx(t *testing.T) {
	path := os.Getenv("SIM_DEBUG")
	if path == "" {
		t.Skip()
	}
	tr, _ := LoadTrace(path)
	w := NewWorld(tr, []Monitor{&dbgMon{}})
	w.Run()
}

type dbgMon struct{ BaseMonitor }

func (dbgMon) Name() string { return "dbg" }
func (dbgMon) AfterTx(w *World, tx *TxCtx) {
	if tx.Resp.Code != 0 {
		fmt.Printf("TXLOG %d/%d code=%d\n%s\n", tx.Block, tx.Idx, tx.Resp.Code, tx.Resp.Log)
	}
	if os.Getenv("SIM_DEBUG_EVENTS") != "" {
		for _, e := range tx.Resp.Events {
			fmt.Printf("EVENT %d/%d %s", tx.Block, tx.Idx, e.Type)
			for _, a := range e.Attributes {
				fmt.Printf(" %s=%s", a.Key, a.Value)
			}
			fmt.Println()
		}
	}
}

// TestDumpSeed writes the event log of one generated run to SIM_DUMP (debug aid).
func TestDumpSeed(t *testing.T) {
	out := os.Getenv("SIM_DUMP")
	if out == "" {
		t.Skip()
	}
	prop := os.Getenv("SIM_PROP")
	seed := envInt("SIM_SEED", 1)
	tr, g := NewRun(prop, seed, "quick")
	res := Execute(t, tr, g, prop, true)
	_ = os.WriteFile(out, res.EventLog, 0o644)
}

// TestDumpSeq runs the first SIM_N seeds of the worker-0 sequence in one process and dumps the last one's event log.
func TestDumpSeq(t *testing.T) {
	out := os.Getenv("SIM_DUMPSEQ")
	if out == "" {
		t.Skip()
	}
	prop := os.Getenv("SIM_PROP")
	n := envInt("SIM_N", 3)
	base := envInt("VERIF_SEED", 1)
	var last *RunResult
	for i := int64(0); i < n; i++ {
		seed := runSeed(base, prop, 0, i)
		tr, g := NewRun(prop, seed, "quick")
		last = Execute(t, tr, g, prop, true)
		fmt.Println("SEQ", i, seed, last.EventHash)
	}
	_ = os.WriteFile(out, last.EventLog, 0o644)
}

// TestBigReg runs C15 seeds with the beyond-the-export-cap registration forced on (debug aid).
func TestBigReg(t *testing.T) {
	if os.Getenv("SIM_BIGREG") == "" {
		t.Skip()
	}
	for i := int64(0); i < envInt("SIM_N", 2); i++ {
		seed := runSeed(1, "C15", 77, i)
		tr, g := NewRun("C15", seed, "quick")
		tr.Knobs.BigReg = &BigReg{Kind: []string{"wrk", "bcn"}[i%2], N: ExportCap + 3}
		if tr.Knobs.StartWrk < 2 {
			tr.Knobs.StartWrk, tr.Knobs.StartBeacon = 2, 2
		}
		res := Execute(t, tr, g, "C15", true)
		fmt.Println("BIGREG", seed, res.Blocks, res.WallMs, res.Probes, res.Violations)
	}
}
