package simnet

import (
	"fmt"
	"os"
	"testing"
)

// TestDebugTx replays a file and prints the full log of every failing tx (debug aid).
func TestDebugTx(t *testing.T) {
	path := os.Getenv("SIM_DEBUG")
	if path == "" {
		t.Skip()
	}
	tr, _ := LoadTrace(path)
	w := NewWorld(tr, []Monitor{&dbgMon{}})
	w.Run()
}

type dbgMon struct{ BaseMonitor }

func (dbgMon) Name() string { return "dbg" }
func (dbgMon) AfterTx(w *World, tx *TxCtx) {
	if tx.Resp.Code != 0 {
		fmt.Printf("TXLOG %d/%d code=%d\n%s\n", tx.Block, tx.Idx, tx.Resp.Code, tx.Resp.Log)
	}
}
