package simnet

// exec.go — the executor: drives the reference node and the replicas through a Trace, one ABCI
// call at a time, calling the armed monitors around every call. It is the only place where the
// application is stepped, so the interleaving of consensus calls, CheckTx/Query noise, crashes and
// restarts is exactly the one the trace dictates.

import (
	"bytes"
	"crypto/sha256"
	"encoding/hex"
	"fmt"
	"os"
	"sort"
	"strings"
	"time"

	dbm "github.com/cometbft/cometbft-db"
	abci "github.com/cometbft/cometbft/abci/types"
	tmproto "github.com/cometbft/cometbft/proto/tendermint/types"
	sdk "github.com/cosmos/cosmos-sdk/types"
)

type Violation struct {
	Property string `json:"property"`
	Class    string `json:"class"`
	Detail   string `json:"detail"`
	Block    int    `json:"block"`
	Tx       int    `json:"tx"`
}

type TxDigest struct {
	Code      uint32
	Codespace string
	Data      string
	GasWanted int64
	GasUsed   int64
}

func digestOf(r abci.ResponseDeliverTx) TxDigest {
	return TxDigest{r.Code, r.Codespace, hex.EncodeToString(r.Data), r.GasWanted, r.GasUsed}
}

type BlockRec struct {
	Height  int64
	Time    time.Time
	Txs     [][]byte
	Res     []TxDigest
	AppHash []byte
}

// TxCtx is what monitors see around one transaction.
type TxCtx struct {
	Spec       *TxSpec
	Msgs       []sdk.Msg
	Bytes      []byte
	Payer      sdk.AccAddress
	Signer     sdk.AccAddress
	Fee        sdk.Coins
	Resp       abci.ResponseDeliverTx
	AntePassed bool
	Check      *abci.ResponseCheckTx
	Block, Idx int
	Delivered  bool
	Signers    map[string]bool // every account whose signature the transaction carries (bech32)
	Granter    sdk.AccAddress  // fee granter named by the delivered bytes (nil if none)
	Stash      map[string]interface{}
}

// Monitor is one oracle. All hooks are optional no-ops in BaseMonitor.
type Monitor interface {
	Name() string
	Init(w *World)
	AfterBegin(w *World, resp abci.ResponseBeginBlock)
	BeforeTx(w *World, tx *TxCtx)
	AfterTx(w *World, tx *TxCtx)
	AfterCheck(w *World, tx *TxCtx)
	AfterEnd(w *World, resp abci.ResponseEndBlock)
	AfterBlock(w *World)
	OnQuery(w *World, q *QuerySpec, mid bool)
	AtEnd(w *World)
}

type BaseMonitor struct{}

func (BaseMonitor) Init(*World)                                {}
func (BaseMonitor) AfterBegin(*World, abci.ResponseBeginBlock) {}
func (BaseMonitor) BeforeTx(*World, *TxCtx)                    {}
func (BaseMonitor) AfterTx(*World, *TxCtx)                     {}
func (BaseMonitor) AfterCheck(*World, *TxCtx)                  {}
func (BaseMonitor) AfterEnd(*World, abci.ResponseEndBlock)     {}
func (BaseMonitor) AfterBlock(*World)                          {}
func (BaseMonitor) OnQuery(*World, *QuerySpec, bool)           {}
func (BaseMonitor) AtEnd(*World)                               {}

type Stats struct {
	Blocks, Txs, TxOK, TxFail, AnteFail int
	Checks, CheckOK                     int
	SimSeconds                          int64
	Faults                              map[string]int
	Probes                              map[string]int
	OpOutcome                           map[string]int // "<msg type>/<ok|fail>"
	StateDigests                        map[string]struct{}
	FaultCtx                            map[string]struct{}
	Halted                              string
}

func newStats() *Stats {
	return &Stats{Faults: map[string]int{}, Probes: map[string]int{}, OpOutcome: map[string]int{}, StateDigests: map[string]struct{}{}, FaultCtx: map[string]struct{}{}}
}

type World struct {
	T               *Trace
	Actors          []*Actor
	Ref             *Node
	Replicas        []*Node
	Log             []BlockRec
	AppState        []byte
	Now             time.Time // block time of the block being executed / last executed
	Hdr             tmproto.Header
	InBlock         bool
	BlockIdx        int
	Mons            []Monitor
	Viol            []Violation
	St              *Stats
	ev              bytes.Buffer
	InBubble        bool
	M               *Models
	lastBytes       map[int][]byte
	checkSeq        map[string]uint64
	StopOnViolation bool
	KnownClasses    map[string]bool // classes listed in known_findings.json: recorded, but the run goes on
	stopped         bool
	EndedBy         string
	scratch         string
	Fork            *Fork
	Gen             *Gen
	PropOverride    string
	armedC15        bool
	armedC08        bool
	ibcSimulated    bool // the reference node has simulated a transaction holding IBC messages
	IsShadow        bool // this World wraps the chain started from an export (followShadow)
	armedShadow     bool
	shadow          *shadowChain
	wallAdvanced    int64
	// pending: transactions admitted by CheckTx that no proposer has included yet (the node's
	// mempool). CometBFT re-checks every one of them after each Commit (CheckTx type Recheck) and
	// evicts those that no longer pass; whatever stays is, by definition, still admitted.
	pending []*TxCtx
}

func (w *World) Ev(format string, a ...interface{}) {
	fmt.Fprintf(&w.ev, format, a...)
	w.ev.WriteByte('\n')
}

func (w *World) EventLog() []byte { return w.ev.Bytes() }

// EventLogHash hashes the event log without its comment lines ("# ..."): those carry free-text
// error logs, which ABCI declares non-deterministic (e.g. which of two failing checks an ante
// decorator reports first depends on map order) and which are not part of any result hash.
func (w *World) EventLogHash() string {
	h := sha256.New()
	for _, line := range bytes.Split(w.ev.Bytes(), []byte{'\n'}) {
		if len(line) > 0 && line[0] == '#' {
			continue
		}
		h.Write(line)
		h.Write([]byte{'\n'})
	}
	return hex.EncodeToString(h.Sum(nil))
}

func (w *World) Violate(prop, class, format string, a ...interface{}) {
	if w.PropOverride != "" && prop != w.PropOverride {
		// a borrowed monitor (e.g. the C08 retention model run on behalf of C16) reports under the
		// property the check was asked about
		class = w.PropOverride + "/via-" + class
		prop = w.PropOverride
	}
	v := Violation{Property: prop, Class: class, Detail: fmt.Sprintf(format, a...), Block: w.BlockIdx, Tx: -1}
	w.Viol = append(w.Viol, v)
	w.Ev("VIOLATION %s %s", prop, class)
	w.Ev("# detail %s", v.Detail)
	if w.StopOnViolation && !w.KnownClasses[class] {
		w.stopped = true
	}
}

func (w *World) Fault(kind string) { w.St.Faults[kind]++ }

// FaultCtx records where a node-level fault landed: the kind together with what the interrupted
// block contained (second reach measure of the evidence: distinct fault contexts).
func (w *World) FaultCtx(kind string, rec *BlockRec, k int) {
	if rec == nil {
		return
	}
	ok, fail := 0, 0
	for _, r := range rec.Res {
		if r.Code == 0 {
			ok++
		} else {
			fail++
		}
	}
	bucket := func(n int) string {
		switch {
		case n == 0:
			return "0"
		case n <= 2:
			return "1-2"
		case n <= 6:
			return "3-6"
		}
		return "7+"
	}
	w.St.FaultCtx[fmt.Sprintf("%s/k=%d/ok=%s/fail=%s", kind, k, bucket(ok), bucket(fail))] = struct{}{}
}
func (w *World) Probe(name string) { w.St.Probes[name]++ }

// DCtx is the deliver-state context of the reference node (valid between BeginBlock and Commit).
func (w *World) DCtx() sdk.Context { return w.Ref.App.BaseApp.NewContext(false, w.Hdr) }

// CCtx is a context over the committed state of the reference node (valid at block boundaries).
func (w *World) CCtx() sdk.Context { return w.Ref.App.BaseApp.NewUncachedContext(false, w.Hdr) }

// Ctx picks the right one.
func (w *World) Ctx() sdk.Context {
	if w.InBlock {
		return w.DCtx()
	}
	return w.CCtx()
}

func NewWorld(t *Trace, mons []Monitor) *World {
	sealConfig()
	w := &World{T: t, St: newStats(), Mons: mons, lastBytes: map[int][]byte{}, checkSeq: map[string]uint64{}}
	w.Actors = MakeActors(t.Knobs.NActors, t.Knobs.Kinds)
	appState, _ := BuildGenesis(&t.Knobs, w.Actors)
	w.AppState = appState
	w.Ref = &Node{Idx: 0, Cfg: DefaultRefCfg(), DB: newLeakDB(dbm.NewMemDB())}
	w.Ref.Cfg.Mempool = t.Knobs.RefMempool
	w.Ref.AppOpts = appOptsOf(&t.Knobs)
	w.Ref.Cfg.MinGasPrices = t.Knobs.RefMinGas
	w.Ref.Open()
	w.Now = time.Unix(GenesisTS, 0).UTC()
	w.Hdr = MakeHeader(0, w.Now, nil)
	return w
}

func (w *World) newReplica(i int, cfg NodeCfg) *Node {
	n := &Node{Idx: i, Cfg: cfg, AppOpts: appOptsOf(&w.T.Knobs)}
	var inner dbm.DB
	if cfg.Backend == "goleveldb" && w.scratch != "" {
		dir := fmt.Sprintf("%s/node%d", w.scratch, i)
		db, err := dbm.NewGoLevelDB("application", dir)
		if err != nil {
			panic(err)
		}
		inner = db
		n.dir = dir
	} else {
		inner = newLeakDB(dbm.NewMemDB())
	}
	n.Fault = NewFaultDB(inner)
	n.DB = n.Fault
	return n
}

// txIsIBC: the transaction holds a message of the IBC core modules.
func (w *World) txIsIBC(bz []byte) bool {
	dec, err := w.Ref.App.TxConfig().TxDecoder()(bz)
	if err != nil {
		return false
	}
	for _, m := range dec.GetMsgs() {
		if strings.HasPrefix(sdk.MsgTypeURL(m), "/ibc.core.") {
			return true
		}
	}
	return false
}

// panicString extracts a stable text from a recovered value.
func panicString(r interface{}) string {
	s := fmt.Sprint(r)
	if len(s) > 300 {
		s = s[:300]
	}
	return s
}

// safely runs f and returns the recovered panic text ("" if none).
func safely(f func()) (p string, sentinel bool) {
	defer func() {
		if r := recover(); r != nil {
			if _, ok := r.(crashSentinel); ok {
				sentinel = true
				p = "crash"
				return
			}
			p = panicString(r)
			if p == "" {
				p = "panic"
			}
		}
	}()
	f()
	return "", false
}

// Run executes the whole trace. It returns after the last block or at the first halt.
func (w *World) Run() {
	// genesis on the reference
	if p, _ := safely(func() { w.Ref.App.InitChain(InitChainReq(w.AppState)) }); p != "" {
		w.St.Halted = "InitChain: " + p
		w.EndedBy = "initchain-panic"
		w.Ev("INITCHAIN PANIC %s", p)
		if w.T.Knobs.BadGenesisParams != "" {
			w.Probe("c16.invalid-genesis-params-refused")
		}
		for _, m := range w.Mons {
			m.AtEnd(w)
		}
		return
	}
	if bad := w.T.Knobs.BadGenesisParams; bad != "" {
		// the document carries parameters that break a validity rule: a node that starts from it holds
		// stored parameters that are invalid (or none at all) from the first block on
		w.Violate("C16", "C16/invalid-genesis-params-accepted/"+strings.Replace(bad, ":", "/", 1), "InitChain accepted a genesis document whose parameters break %s", bad)
		w.EndedBy = "bad-genesis-accepted"
		for _, m := range w.Mons {
			m.AtEnd(w)
		}
		return
	}
	w.M = NewModels(w)
	for i, cfg := range w.T.Knobs.Nodes {
		n := w.newReplica(i+1, cfg)
		// every node imports the genesis document at its own wall-clock time
		w.sleep(int64(3 + 7*i))
		n.Open()
		n.App.InitChain(InitChainReq(w.AppState))
		w.Replicas = append(w.Replicas, n)
	}
	for _, m := range w.Mons {
		m.Init(w)
	}
	for bi := 0; ; bi++ {
		if w.Gen != nil {
			b, ok := w.Gen.NextBlock(w, bi)
			if !ok {
				break
			}
			w.T.Blocks = append(w.T.Blocks, b)
		} else if bi >= len(w.T.Blocks) {
			break
		}
		w.BlockIdx = bi
		if !w.execBlock(&w.T.Blocks[bi]) {
			break
		}
		if w.stopped {
			w.EndedBy = "violation"
			break
		}
	}
	if w.St.Halted == "" && !w.stopped {
		w.finishReplicas()
	}
	for _, m := range w.Mons {
		m.AtEnd(w)
	}
	w.closeReplicas()
}

func (w *World) closeReplicas() {
	for _, n := range w.Replicas {
		if n.dir != "" && !n.dbClosed {
			_ = n.DB.Close()
		}
	}
}

func (w *World) accNumSeq(ctx sdk.Context, addr sdk.AccAddress) (uint64, uint64) {
	acc := w.Ref.App.AccountKeeper.GetAccount(ctx, addr)
	if acc == nil {
		return 0, 0
	}
	return acc.GetAccountNumber(), acc.GetSequence()
}

func antePassed(r abci.ResponseDeliverTx) bool { return r.Code == 0 || len(r.Events) > 0 }

func (w *World) execBlock(b *BlockSpec) bool {
	ref := w.Ref
	height := int64(len(w.Log)) + 1
	dt := b.DtMs
	if dt < 1 {
		dt = 1
	}
	w.Now = addMillis(w.Now, dt)
	w.St.SimSeconds += dt / 1000
	var prevHash []byte
	if len(w.Log) > 0 {
		prevHash = w.Log[len(w.Log)-1].AppHash
	}
	w.Hdr = MakeHeader(height, w.Now, prevHash)
	rec := BlockRec{Height: height, Time: w.Now}
	w.Ev("BLOCK %d t=%d", height, w.Now.UnixNano())
	w.runNoise(b, -2, height)

	var bresp abci.ResponseBeginBlock
	if p, _ := safely(func() {
		bresp = ref.App.BeginBlock(abci.RequestBeginBlock{Header: w.Hdr, LastCommitInfo: LastCommit()})
	}); p != "" {
		w.halt("BeginBlock", p)
		return false
	}
	w.InBlock = true
	w.M.afterBegin(w, bresp)
	for _, m := range w.Mons {
		m.AfterBegin(w, bresp)
	}
	w.runQueries(b, 0)

	for ti := range b.Txs {
		ts := &b.Txs[ti]
		tx := w.prepareTx(ts, ti)
		if tx == nil {
			continue
		}
		w.runNoise(b, ti, height)
		if ts.SimOnly {
			if len(w.Log) > 0 {
				r := ref.App.Query(abci.RequestQuery{Path: "/app/simulate", Data: w.signFor(ts, ref.App.BaseApp.NewContext(true, w.Hdr))})
				w.Fault("abci.simulate_only")
				w.Ev("SIMONLY %d/%d code=%d", height, ti, r.Code)
			}
			continue
		}
		if ts.Check || ts.CheckOnly {
			w.doCheck(tx)
		}
		if ts.CheckOnly {
			continue
		}
		for _, m := range w.Mons {
			m.BeforeTx(w, tx)
		}
		w.M.beforeTx(w, tx)
		tx.Resp = ref.App.DeliverTx(abci.RequestDeliverTx{Tx: tx.Bytes})
		tx.Delivered = true
		tx.AntePassed = antePassed(tx.Resp)
		rec.Txs = append(rec.Txs, tx.Bytes)
		rec.Res = append(rec.Res, digestOf(tx.Resp))
		w.St.Txs++
		if tx.Resp.Code == 0 {
			w.St.TxOK++
		} else {
			w.St.TxFail++
			if !tx.AntePassed {
				w.St.AnteFail++
			}
		}
		w.Ev("TX %d/%d code=%d/%s gas=%d/%d ante=%v", height, ti, tx.Resp.Code, tx.Resp.Codespace, tx.Resp.GasWanted, tx.Resp.GasUsed, tx.AntePassed)
		if tx.Resp.Code != 0 {
			w.Ev("# log %s", trunc(tx.Resp.Log, 100))
		}
		w.M.afterTx(w, tx)
		for _, m := range w.Mons {
			m.AfterTx(w, tx)
		}
		w.runQueries(b, ti+1)
		if w.stopped {
			break
		}
	}

	w.runNoise(b, len(b.Txs), height)
	var eresp abci.ResponseEndBlock
	if p, _ := safely(func() { eresp = ref.App.EndBlock(abci.RequestEndBlock{Height: height}) }); p != "" {
		w.halt("EndBlock", p)
		return false
	}
	w.M.afterEnd(w, eresp)
	for _, m := range w.Mons {
		m.AfterEnd(w, eresp)
	}
	w.runNoise(b, -1, height)
	var cresp abci.ResponseCommit
	// an iterator left open holds the in-memory database's read lock: Commit would wait forever
	for _, who := range ref.releaseDangling() {
		w.Ev("# iterator left open by %s", who)
		w.Probe("harness.iterator-left-open")
		if os.Getenv("SIM_LEAKDBG") != "" {
			fmt.Fprintln(os.Stderr, "ITERATOR-LEFT-OPEN", who)
		}
	}
	if p, _ := safely(func() { cresp = ref.App.Commit() }); p != "" {
		w.halt("Commit", p)
		return false
	}
	w.InBlock = false
	w.checkSeq = map[string]uint64{}
	rec.AppHash = cresp.Data
	ref.Height = height
	w.Log = append(w.Log, rec)
	w.St.Blocks++
	w.Ev("COMMIT %d %X", height, cresp.Data)
	w.M.afterBlock(w)
	// reach measure: distinct states of the four custom modules seen at block boundaries
	{
		d := fullModuleDigest(w, w.CCtx())
		h := sha256.Sum256([]byte(d))
		w.St.StateDigests[hex.EncodeToString(h[:6])] = struct{}{}
	}
	for _, m := range w.Mons {
		m.AfterBlock(w)
	}
	w.runQueries(b, -1)
	w.recheckPending()
	w.runNoise(b, -3, height)
	if b.Export {
		w.takeFork()
	}
	if w.Fork != nil {
		w.Fork.follow(w, &rec)
	}
	w.followShadow(&rec)
	w.stepReplicas(b)
	return true
}

func trunc(s string, n int) string {
	s = strings.ReplaceAll(s, "\n", " ")
	if len(s) > n {
		return s[:n]
	}
	return s
}

func (w *World) halt(where, p string) {
	w.St.Halted = where + ": " + p
	w.EndedBy = "halt"
	w.Ev("HALT %s %s", where, trunc(p, 200))
}

func (w *World) runQueries(b *BlockSpec, pos int) {
	for qi := range b.Queries {
		q := &b.Queries[qi]
		if q.MidTx != pos {
			continue
		}
		for _, m := range w.Mons {
			m.OnQuery(w, q, pos >= 0)
		}
	}
}

// prepareTx signs the transaction against the current deliver state of the reference node.
func (w *World) prepareTx(ts *TxSpec, idx int) *TxCtx {
	tx := &TxCtx{Spec: ts, Block: w.BlockIdx, Idx: idx, Stash: map[string]interface{}{}}
	signer := w.Actors[actorIdx(ts.Signer, len(w.Actors))]
	tx.Signer = signer.Addr
	if ts.Replay {
		bz, ok := w.lastBytes[signer.Idx]
		if !ok {
			return nil
		}
		w.Fault("tx.dup")
		tx.Bytes = bz
		dec, err := w.Ref.App.TxConfig().TxDecoder()(bz)
		if err != nil {
			return nil
		}
		tx.Msgs = dec.GetMsgs()
		if ft, ok := dec.(sdk.FeeTx); ok {
			tx.Fee = ft.GetFee()
			tx.Payer = ft.FeePayer()
			tx.Granter = ft.FeeGranter()
		}
		canonMsgs(tx.Msgs)
		return tx
	}
	accNum, seq := w.accNumSeq(w.DCtx(), signer.Addr)
	var pAcc, pSeq uint64
	if ts.Payer > 0 {
		pAcc, pSeq = w.accNumSeq(w.DCtx(), AddrOf(w.Actors, ts.Payer-1))
	}
	dctx := w.DCtx()
	bz, msgs, err := SignTxWith(w.Ref.App.TxConfig(), w.Actors, ts, accNum, seq, func(a sdk.AccAddress) (uint64, uint64) { return w.accNumSeq(dctx, a) }, pAcc, pSeq)
	if err != nil {
		// a message the client library itself refuses to build (never reaches the chain)
		w.Ev("TXBUILD-ERR %v", err)
		w.Probe("txbuild.error")
		return nil
	}
	if ts.SigFault != "" {
		w.Fault("sig." + ts.SigFault)
	}
	if ts.SeqDelta != 0 {
		w.Fault("sig.seq_delta")
	}
	tx.Bytes, tx.Msgs = bz, msgs
	tx.Fee = parseFee(ts.Fee)
	tx.Payer = signer.Addr
	if dec, err := w.Ref.App.TxConfig().TxDecoder()(bz); err == nil {
		// judge what the chain sees: the messages as decoded from the wire
		tx.Msgs = dec.GetMsgs()
		if ft, ok := dec.(sdk.FeeTx); ok {
			func() {
				defer func() { _ = recover() }()
				tx.Payer = ft.FeePayer()
				tx.Granter = ft.FeeGranter()
			}()
		}
	}
	canonMsgs(tx.Msgs)
	tx.Signers = map[string]bool{signer.Addr.String(): true}
	if ts.Multi {
		if dec, err := w.Ref.App.TxConfig().TxDecoder()(bz); err == nil {
			if st, ok := dec.(interface{ GetSigners() []sdk.AccAddress }); ok {
				func() {
					defer func() { _ = recover() }()
					for _, a := range st.GetSigners() {
						tx.Signers[a.String()] = true
					}
				}()
			}
		}
		w.Fault("tx.multi_signer")
	}
	w.lastBytes[signer.Idx] = bz
	return tx
}

// doCheck runs the transaction through mempool admission on the reference node. Because a passing
// CheckTx advances the check-state sequence, the transaction is re-signed for the check state.
func (w *World) doCheck(tx *TxCtx) {
	if len(w.Log) == 0 {
		return // before the first commit the check state does not hold the genesis state yet
	}
	ts := tx.Spec
	signer := w.Actors[actorIdx(ts.Signer, len(w.Actors))]
	cctx := w.Ref.App.BaseApp.NewContext(true, w.Hdr)
	accNum, seq := w.accNumSeq(cctx, signer.Addr)
	bz := tx.Bytes
	if !ts.Replay {
		var pAcc, pSeq uint64
		if ts.Payer > 0 {
			pAcc, pSeq = w.accNumSeq(cctx, AddrOf(w.Actors, ts.Payer-1))
		}
		b2, _, err := SignTxWith(w.Ref.App.TxConfig(), w.Actors, ts, accNum, seq, func(a sdk.AccAddress) (uint64, uint64) { return w.accNumSeq(cctx, a) }, pAcc, pSeq)
		if err != nil {
			return
		}
		bz = b2
	}
	// pre-admission figures of the fee payer, for the affordability clause of C06
	tx.Stash["check.spendable"] = w.Ref.App.BankKeeper.SpendableCoins(cctx, tx.Payer)
	tx.Stash["check.locked"] = w.Ref.App.EnterpriseKeeper.GetLockedUndAmountForAccount(cctx, tx.Payer)
	resp := w.Ref.App.CheckTx(abci.RequestCheckTx{Tx: bz, Type: abci.CheckTxType_New})
	tx.Check = &resp
	w.St.Checks++
	if resp.Code == 0 {
		w.St.CheckOK++
	}
	w.Ev("CHECK %d/%d code=%d/%s", w.BlockIdx, tx.Idx, resp.Code, resp.Codespace)
	if resp.Code != 0 {
		w.Ev("# log %s", trunc(resp.Log, 100))
	}
	for _, m := range w.Mons {
		m.AfterCheck(w, tx)
	}
	if ts.CheckOnly && resp.Code == 0 && len(w.pending) < 6 {
		w.Fault("tx.held_in_mempool")
		p := *tx
		p.Bytes = bz
		p.Stash = map[string]interface{}{}
		w.pending = append(w.pending, &p)
	}
}

// recheckPending is what CometBFT's mempool does after every Commit.
func (w *World) recheckPending() {
	if len(w.pending) == 0 {
		return
	}
	var keep []*TxCtx
	for _, tx := range w.pending {
		cctx := w.Ref.App.BaseApp.NewContext(true, w.Hdr)
		tx.Stash["check.spendable"] = w.Ref.App.BankKeeper.SpendableCoins(cctx, tx.Payer)
		tx.Stash["check.locked"] = w.Ref.App.EnterpriseKeeper.GetLockedUndAmountForAccount(cctx, tx.Payer)
		tx.Stash["recheck"] = true
		resp := w.Ref.App.CheckTx(abci.RequestCheckTx{Tx: tx.Bytes, Type: abci.CheckTxType_Recheck})
		tx.Check = &resp
		w.Fault("abci.recheck_pending")
		w.Ev("RECHECK %d/%d code=%d/%s", tx.Block, tx.Idx, resp.Code, resp.Codespace)
		for _, m := range w.Mons {
			m.AfterCheck(w, tx)
		}
		if resp.Code == 0 {
			keep = append(keep, tx)
		}
	}
	w.pending = keep
}

// ---------------------------------------------------------------------------------------------
// replicas

func (w *World) nodeEvent(b *BlockSpec, idx int) *NodeEvent {
	for i := range b.Nodes {
		if b.Nodes[i].Node == idx {
			return &b.Nodes[i]
		}
	}
	return nil
}

// sleep advances the bubble's fake wall clock. The bubble clock is int64 nanoseconds starting at
// 2000-01-01, so the total advance is capped at 200 years (it would overflow in 2262).
func (w *World) sleep(sec int64) {
	const capSec = int64(200 * 365 * 86400)
	if sec > 0 && w.InBubble && w.wallAdvanced+sec < capSec {
		w.wallAdvanced += sec
		time.Sleep(time.Duration(sec) * time.Second)
	}
}

func (w *World) stepReplicas(b *BlockSpec) {
	tip := int64(len(w.Log))
	for _, n := range w.Replicas {
		ev := w.nodeEvent(b, n.Idx)
		kind := "follow"
		if ev != nil {
			kind = ev.Kind
			if ev.SkewS > 0 {
				w.Fault("node.clock_skew")
				w.sleep(ev.SkewS)
			}
		}
		switch kind {
		case "lag":
			w.Fault("node.lag")
		case "restart":
			if n.Down {
				w.restart(n)
			}
			w.catchUp(n, tip, nil)
		case "crash":
			if n.Down {
				continue
			}
			w.catchUp(n, tip-1, nil)
			w.catchUp(n, tip, ev)
		default:
			if n.Down {
				continue
			}
			w.catchUp(n, tip, ev)
		}
		if w.stopped {
			return
		}
	}
}

func (w *World) finishReplicas() {
	tip := int64(len(w.Log))
	for _, n := range w.Replicas {
		if n.Down {
			w.restart(n)
		}
		before := n.Height
		w.catchUp(n, tip, nil)
		if n.Height != tip {
			w.Violate("C01", "C01/liveness/not-caught-up", "node %d at %d (was %d) tip %d after faults stopped", n.Idx, n.Height, before, tip)
		}
	}
}

// restart = a process start on the surviving database followed by the CometBFT handshake.
func (w *World) restart(n *Node) {
	w.Fault("node.restart")
	if n.Fault != nil {
		n.Fault.Disarm()
	}
	var p string
	if n.dbClosed {
		db, err := dbm.NewGoLevelDB("application", n.dir)
		if err != nil {
			w.Violate("C01", "C01/restart/open-panic", "node %d cannot reopen its LevelDB files: %v", n.Idx, err)
			return
		}
		n.Fault.DB = db
		n.dbClosed = false
		w.Fault("disk.leveldb_reopen")
	}
	p, _ = safely(func() { n.Open() })
	if p != "" {
		w.Violate("C01", "C01/restart/open-panic", "node %d cannot reopen its database: %s", n.Idx, p)
		return
	}
	info := n.App.Info(abci.RequestInfo{})
	h := info.LastBlockHeight
	w.Ev("RESTART node=%d info=%d hash=%X crashedAt=%d", n.Idx, h, info.LastBlockAppHash, n.Height)
	// n.Height holds the height the crash point dictates (set by the crash code): lo..hi window
	lo, hi := n.Height, n.Height
	if n.crashTorn {
		hi = n.Height + 1
	}
	if h < lo || h > hi {
		w.Violate("C01", "C01/restart/wrong-height", "node %d restarted at height %d, expected %d..%d", n.Idx, h, lo, hi)
	}
	if h > 0 && h <= int64(len(w.Log)) {
		if !bytes.Equal(info.LastBlockAppHash, w.Log[h-1].AppHash) {
			w.Violate("C01", "C01/restart/wrong-hash", "node %d restarted at %d with hash %X, reference %X", n.Idx, h, info.LastBlockAppHash, w.Log[h-1].AppHash)
		}
	}
	if h == 0 {
		n.App.InitChain(InitChainReq(w.AppState))
	}
	n.Height = h
	n.crashTorn = false
}

// catchUp makes node n execute blocks n.Height+1..upto from the block log. If ev is a crash event
// it applies to the last block.
func (w *World) catchUp(n *Node, upto int64, ev *NodeEvent) {
	for n.Height < upto && !n.Down && !w.stopped {
		h := n.Height + 1
		rec := &w.Log[h-1]
		var crash *NodeEvent
		if ev != nil && ev.Kind == "crash" && h == upto {
			crash = ev
		}
		w.execOnReplica(n, rec, crash, ev)
	}
}

func (w *World) die(n *Node, at string, committed bool, torn bool) {
	w.Fault("node.crash@" + at)
	w.FaultCtx("node.crash@"+at, n.curRec, n.curK)
	n.App = nil
	n.Down = true
	n.crashTorn = torn
	_ = committed
	if n.dir != "" && n.Fault != nil {
		// the process is gone: its LevelDB handle goes with it; the restart opens the files again
		// (journal replay, manifest recovery)
		_ = n.Fault.DB.Close()
		n.dbClosed = true
	}
}

func (w *World) execOnReplica(n *Node, rec *BlockRec, crash *NodeEvent, ev *NodeEvent) {
	var prevHash []byte
	if rec.Height > 1 {
		prevHash = w.Log[rec.Height-2].AppHash
	}
	hdr := MakeHeader(rec.Height, rec.Time, prevHash)
	a := n.App
	n.curRec, n.curK = rec, 0
	if crash != nil {
		n.curK = crash.K % 24
	}
	if ev != nil && ev.SlowMs > 0 && n.Fault != nil && w.InBubble && n.dir == "" && w.wallAdvanced < 100*365*86400 {
		n.Fault.SlowRead = time.Duration(ev.SlowMs) * time.Millisecond
		n.Fault.Slept = 0
		defer func() {
			w.wallAdvanced += int64(n.Fault.Slept) * ev.SlowMs / 1000
			n.Fault.SlowRead = 0
			w.Fault("node.slow_disk")
		}()
	}
	if ev != nil && ev.Proposal != "" {
		w.replicaProposal(n, rec, ev.Proposal)
	}
	if p, _ := safely(func() { a.BeginBlock(abci.RequestBeginBlock{Header: hdr, LastCommitInfo: LastCommit()}) }); p != "" {
		w.Violate("C01", "C01/replica-panic/begin", "node %d panicked in BeginBlock %d where the reference did not: %s", n.Idx, rec.Height, p)
		n.Down = true
		return
	}
	if crash != nil && crash.At == "begin" {
		w.die(n, "begin", false, false)
		return
	}
	for i, bz := range rec.Txs {
		if crash != nil && crash.At == "deliver" && i == crash.K%(len(rec.Txs)+1) {
			w.die(n, "deliver", false, false)
			return
		}
		if ev != nil && ev.JumpS > 0 && i == len(rec.Txs)/2 {
			w.Fault("node.clock_jump")
			w.sleep(ev.JumpS)
		}
		r := a.DeliverTx(abci.RequestDeliverTx{Tx: bz})
		d := digestOf(r)
		if d != rec.Res[i] {
			cl := "C01/tx-result-differs"
			if w.ibcSimulated && w.txIsIBC(bz) {
				// its own class: an IBC handshake message, on a reference node that was asked to simulate
				// an IBC handshake transaction earlier (x/capability keeps capabilities in process memory)
				cl += "/ibc-message-after-simulated-ibc-message"
			}
			w.Violate("C01", cl, "node %d height %d tx %d: %+v vs reference %+v", n.Idx, rec.Height, i, d, rec.Res[i])
		}
	}
	if crash != nil && crash.At == "deliver" {
		w.die(n, "deliver", false, false)
		return
	}
	if p, _ := safely(func() { a.EndBlock(abci.RequestEndBlock{Height: rec.Height}) }); p != "" {
		w.Violate("C01", "C01/replica-panic/end", "node %d panicked in EndBlock %d where the reference did not: %s", n.Idx, rec.Height, p)
		n.Down = true
		return
	}
	if crash != nil && crash.At == "end" {
		w.die(n, "end", false, false)
		return
	}
	n.releaseDangling()
	if crash != nil && (crash.At == "commit.write" || crash.At == "disk.error") && n.Fault != nil {
		n.Fault.Arm(crash.K, crash.At == "disk.error")
		p, _ := safely(func() { a.Commit() })
		fired := n.Fault.Fired
		n.Fault.Disarm()
		if fired || p != "" {
			w.Ev("TORN node=%d h=%d writes=%d sync=%d p=%s", n.Idx, rec.Height, n.Fault.Writes, n.Fault.SyncWrites, trunc(p, 60))
			w.die(n, crash.At, false, true)
			return
		}
		// the cut point lay beyond the commit: the commit completed
		n.Height = rec.Height
		w.die(n, "commit", true, false)
		return
	}
	var c abci.ResponseCommit
	if p, _ := safely(func() { c = a.Commit() }); p != "" {
		w.Violate("C01", "C01/replica-panic/commit", "node %d panicked in Commit %d where the reference did not: %s", n.Idx, rec.Height, p)
		n.Down = true
		return
	}
	if !bytes.Equal(c.Data, rec.AppHash) {
		w.Violate("C01", "C01/apphash-differs", "node %d height %d app hash %X, reference %X", n.Idx, rec.Height, c.Data, rec.AppHash)
	}
	n.Height = rec.Height
	w.Ev("REPLICA node=%d h=%d ok", n.Idx, rec.Height)
	if crash != nil && crash.At == "commit" {
		w.die(n, "commit", true, false)
	}
}

// sortedKeys helper for deterministic iteration over string-keyed maps.
func sortedKeys[V any](m map[string]V) []string {
	ks := make([]string, 0, len(m))
	for k := range m {
		ks = append(ks, k)
	}
	sort.Strings(ks)
	return ks
}

// addMillis adds a (possibly multi-century) number of milliseconds without overflowing Duration.
func addMillis(t time.Time, ms int64) time.Time {
	const chunk = int64(100 * 365 * 86400 * 1000) // 100 years
	for ms > chunk {
		t = t.Add(time.Duration(chunk) * time.Millisecond)
		ms -= chunk
	}
	return t.Add(time.Duration(ms) * time.Millisecond)
}
