package simnet

// faultdb.go — the simulated disk. FaultDB wraps the node's durable database and lets the
// simulator cut a commit after the k-th batch write: the first k batches of the commit reach the
// "disk", everything after is lost and the process "dies" (a panic with crashSentinel that the
// node supervisor recovers). Batches are atomic in every backend the node supports, so torn
// batches are not injected; losing un-synced writes loses a suffix of the write order.

import (
	"errors"
	"time"

	dbm "github.com/cometbft/cometbft-db"
)

type crashSentinel struct{ at string }

var errDiskFull = errors.New("simulated disk error: no space left on device")

type FaultDB struct {
	dbm.DB
	// armed state
	Armed      bool
	CutAfter   int  // number of batch writes of the current commit that reach the disk
	ErrInstead bool // return a disk error from the write instead of dying silently (SDK panics on it)
	Writes     int  // batch writes seen since Arm
	SyncWrites int
	Fired      bool
	// statistics
	TotalBatchWrites int
	// slow disk: every read takes SlowRead of the node's (bubble) wall clock
	SlowRead time.Duration
	Slept    int
}

// Get: a slow disk makes wall-clock time pass *inside* an ABCI call.
func (f *FaultDB) Get(key []byte) ([]byte, error) {
	if f.SlowRead > 0 {
		f.Slept++
		time.Sleep(f.SlowRead)
	}
	return f.DB.Get(key)
}

func (f *FaultDB) Has(key []byte) (bool, error) {
	if f.SlowRead > 0 {
		f.Slept++
		time.Sleep(f.SlowRead)
	}
	return f.DB.Has(key)
}

func NewFaultDB(inner dbm.DB) *FaultDB { return &FaultDB{DB: inner} }

func (f *FaultDB) Arm(cutAfter int, errInstead bool) {
	f.Armed, f.CutAfter, f.ErrInstead, f.Writes, f.SyncWrites, f.Fired = true, cutAfter, errInstead, 0, 0, false
}

func (f *FaultDB) Disarm() { f.Armed = false }

func (f *FaultDB) NewBatch() dbm.Batch { return &faultBatch{Batch: f.DB.NewBatch(), f: f} }

type faultBatch struct {
	dbm.Batch
	f *FaultDB
}

func (b *faultBatch) gate(sync bool) error {
	f := b.f
	f.TotalBatchWrites++
	if !f.Armed {
		return nil
	}
	if f.Writes >= f.CutAfter {
		f.Fired = true
		if f.ErrInstead {
			return errDiskFull
		}
		panic(crashSentinel{at: "commit.write"})
	}
	f.Writes++
	if sync {
		f.SyncWrites++
	}
	return nil
}

func (b *faultBatch) Write() error {
	if err := b.gate(false); err != nil {
		return err
	}
	return b.Batch.Write()
}

func (b *faultBatch) WriteSync() error {
	if err := b.gate(true); err != nil {
		return err
	}
	return b.Batch.WriteSync()
}
