package simnet

// placeholder until c15.go lands
type Fork struct{}

func (f *Fork) follow(w *World, rec *BlockRec) {}
func (w *World) takeFork()                     {}
