package simnet

// gen.go — the seeded scheduler/generator. One PRNG (from the run seed) decides everything: the
// genesis knobs, the node set, every block's time step, every transaction and every fault. The
// generator is online (it looks at the reference models to pick interesting targets) but what it
// emits into the Trace is fully concrete, so a trace replays without the generator.

import (
	"encoding/hex"
	"fmt"
	"math/big"
	"math"
	"math/rand"
	"sort"
	"strings"
)

type Profile struct {
	Name       string
	MinBlocks  int
	MaxBlocks  int
	MaxTx      int
	W          map[string]int // category weights
	Replicas   int
	Dt         []int64 // block time steps (ms) to draw from
	CheckPct   int     // share of txs that go through CheckTx first
	FaultPct   int     // share of txs with a tx-level fault
	NodeFaults bool
	Queries    int // query-noise items per block (upper bound)
	HoldPct    int // share of checked txs that are admitted and then left in the mempool
	Noise      int // calls on the non-consensus ABCI surfaces of the reference per block (upper bound)
	Export     bool
	ExportPct  int // chance per block of an export (and import) being taken
}

var dtShort = []int64{1, 400, 1000, 1000, 5000, 5000, 60000}
var dtMixed = []int64{1, 400, 1000, 5000, 5000, 60000, 3600000, 86400000, 86400000 * 30}
var dtLong = []int64{0, 1, 999, 1000, 5000, 61000, 3600000, 86400000, 86400000 * 30, 86400000 * 365, 86400000 * 365 * 5}

func profileFor(prop string, tier string) *Profile {
	p := &Profile{Name: prop, MinBlocks: 12, MaxBlocks: 40, MaxTx: 8, Dt: dtMixed, CheckPct: 20, FaultPct: 10, Queries: 0,
		W: map[string]int{"ent": 10, "wrk": 10, "bcn": 10, "str": 10, "gov": 3, "bank": 4, "nest": 3, "multi": 4, "attack": 3, "stake": 1}}
	if tier == "thorough" {
		p.MaxBlocks = 120
		p.MaxTx = 12
	}
	p.Noise = 2
	p.ExportPct = 12
	p.HoldPct = 4
	switch prop {
	case "C01":
		p.W["multi"] = 8
		p.Replicas, p.NodeFaults = 2, true
		p.FaultPct = 15
		p.Noise = 4
		if tier == "thorough" {
			p.Replicas = 3
		}
	case "C02":
		p.W["ent"], p.W["gov"], p.W["stake"] = 25, 5, 3
	case "C03":
		p.W = map[string]int{"ent": 40, "gov": 6, "bank": 2, "wrk": 3, "multi": 3, "nest": 2}
		p.Dt = []int64{1, 400, 1000, 1000, 2000, 5000, 5000, 30000, 60000, 600000, 86400000}
		p.Export, p.ExportPct = true, 5
	case "C04", "C05":
		p.W = map[string]int{"ent": 25, "wrk": 12, "bcn": 12, "bank": 5, "attack": 8, "multi": 5, "nest": 3, "gov": 2, "str": 4, "stake": 2, "feegrant": 4}
		p.Dt = dtShort
		p.FaultPct = 20
		if prop == "C04" {
			p.Export, p.ExportPct = true, 4
		}
	case "C06":
		p.W = map[string]int{"wrk": 25, "bcn": 25, "ent": 10, "gov": 5, "bank": 3, "multi": 10, "nest": 6}
		p.CheckPct = 100
		p.HoldPct = 10
		p.Dt = dtShort
	case "C07", "C08", "C09":
		p.W = map[string]int{"wrk": 30, "bcn": 30, "gov": 4, "multi": 6, "nest": 3, "bank": 1}
		p.Dt = dtShort
		p.Export, p.ExportPct = true, 4
		if prop == "C08" {
			p.MaxTx = 12
			p.Export = true
			p.ExportPct = 4
		}
	case "C10":
		p.W = map[string]int{"str": 45, "gov": 5, "bank": 4, "attack": 6, "multi": 5, "nest": 2}
		p.Dt = dtLong
	case "C11", "C12":
		p.W = map[string]int{"str": 60, "gov": 4, "bank": 2, "multi": 4, "attack": 4}
		p.Dt = dtLong
		p.FaultPct = 4
		p.Export, p.ExportPct = true, 3
	case "C13":
		p.W["attack"] = 25
		p.W["gov"] = 8
	case "C14":
		p.W["multi"], p.W["gov"], p.W["nest"] = 15, 8, 6
		p.FaultPct = 25
		// "leaves all module state exactly as it was" includes what a process keeps outside the
		// store: a replica that is restarted now and then has forgotten everything a failed
		// transaction or a discarded proposal may have left in memory, and must keep agreeing
		p.Replicas, p.NodeFaults = 1, true
	case "C15":
		p.W["feegrant"] = 2
		p.Export = true
		p.Dt = dtMixed
		p.W["gov"] = 5
	case "C16":
		p.W["gov"] = 30
		p.Dt = []int64{1000, 5000, 5000, 10000, 30000}
		p.CheckPct, p.HoldPct = 50, 10
	case "C17":
		p.W = map[string]int{"ent": 25, "wrk": 10, "bcn": 10, "bank": 5, "gov": 2, "str": 3}
		p.Queries = 3
		p.Dt = dtShort
		p.Export, p.ExportPct = true, 3
	case "C18":
		p.Queries = 2
		p.Export, p.ExportPct = true, 2
	case "C20":
		p.Queries = 4
		p.MaxTx = 10
		p.Replicas = 1
		p.Noise = 3
	}
	return p
}

type Gen struct {
	R     *rand.Rand
	P     *Profile
	Prop  string
	Tier  string
	Flags map[string]bool
	N     int // actors
	total int // blocks to generate
	tail  int // fault-free blocks at the end
	voted map[uint64]bool
	down  map[int]bool
	// IBC objects asked for so far (clients, connections, channels)
	ibcClients, ibcConns, ibcChans int
	// gas observed per message mix (for gas starvation draws)
	simTime int64
	// ghosts: actors that named an identifier inside the transaction that was to create it
	// (register-and-use). If that transaction is rolled back or was only simulated, the identifier
	// goes to the next registrant, and the "ghost" is the party best placed to profit from anything
	// that remembered the discarded branch: later non-owner attempts are biased towards it.
	ghosts map[string]map[uint64]int
	// ghostSigners: actors named as enterprise signers in any parameter-update proposal, whatever
	// became of it (a proposal may pass the vote and still be discarded as a whole when a later
	// message of it fails): decisions and whitelist changes are biased towards them as well
	ghostSigners []int
	// ghostReg: the WRKChain/BEACON parameters named by the latest parameter-update proposal of each
	// module, whatever became of it; some transactions offer the fee *those* would ask for
	ghostReg map[string]RegParams
}

func (g *Gen) addGhost(kind string, id uint64, actor int) {
	if g.ghosts == nil {
		g.ghosts = map[string]map[uint64]int{}
	}
	if g.ghosts[kind] == nil {
		g.ghosts[kind] = map[uint64]int{}
	}
	g.ghosts[kind][id] = actor
}

func pick[T any](r *rand.Rand, xs []T) T { return xs[r.Intn(len(xs))] }

func (g *Gen) pct(p int) bool { return g.R.Intn(100) < p }

func DefaultKnobs() Knobs {
	return Knobs{NActors: 10, Kinds: make([]int, 10), BondDenom: Native,
		Ent:       EntParams{Signers: []int{1, 2}, Denom: Native, MinAccepts: 1, Limit: 600},
		Whitelist: []int{4, 5, 6},
		Wrk:       RegParams{1000, 10, 5, Native, 3, 9},
		Beacon:    RegParams{1000, 10, 5, Native, 3, 9},
		ValFee:    "0.01", StartPO: 1, StartWrk: 1, StartBeacon: 1, GovSecs: 20, Balance: "1000000000000000000"}
}

var allFlags = []string{"upcase", "group", "vesting", "extrafee", "nest", "overflow", "longdur", "huge", "denomchange", "minaccepts63", "addr255", "idwrap", "bigfee", "stakebond", "dupsigners", "granter", "rawbytes", "ibc", "groupleave"}

// flagRates: probability (percent) that a feature flag is on in a run, per property. Flags tied to
// a known finding stay rare everywhere except in the property that owns the finding.
func flagRate(prop, flag string) int {
	if flag == "upcase" {
		// parties written in the all-upper-case spelling of their bech32 address
		return map[string]int{"C03": 35, "C13": 30, "C09": 25, "C07": 15}[prop]
	}
	if flag == "rawbytes" {
		// free-text fields (monikers, names, hashes) holding bytes that are not UTF-8
		return map[string]int{"C15": 25, "C09": 20, "C07": 10, "C20": 10}[prop]
	}
	if flag == "groupleave" {
		return map[string]int{"C14": 12}[prop]
	}
	if flag == "ibc" {
		return map[string]int{"C01": 30}[prop]
	}
	if flag == "group" {
		// x/group proposals executing module messages: only where the oracles know about them
		return map[string]int{"C06": 40, "C18": 30}[prop]
	}
	base := map[string]int{"vesting": 15, "extrafee": 15, "nest": 30, "overflow": 10, "longdur": 8, "huge": 10, "denomchange": 4, "minaccepts63": 3, "addr255": 8, "idwrap": 0, "bigfee": 5, "stakebond": 15, "dupsigners": 5, "granter": 20}[flag]
	boost := map[string][]string{
		"C05": {"vesting", "granter", "extrafee"}, "C04": {"granter", "vesting"}, "C06": {"extrafee", "nest", "bigfee", "overflow"}, "C08": {"overflow", "nest"},
		"C11": {"longdur", "huge"}, "C12": {"huge", "longdur"}, "C14": {"denomchange", "huge", "vesting"}, "C16": {"minaccepts63", "dupsigners", "bigfee"},
		"C18": {"addr255"}, "C20": {"addr255"}, "C02": {"stakebond", "nest"}, "C13": {"nest"}, "C15": {"overflow", "addr255"},
	}
	for _, f := range boost[prop] {
		if f == flag {
			return 40
		}
	}
	// flags whose effect is a (known) chain halt or a corrupted parameter set belong to the
	// properties that are about exactly that; elsewhere they would only end runs early
	if flag == "denomchange" && prop == "C02" {
		return 8 // the chain halts on it (known finding of C14); what C02 watches is what gets minted
	}
	if flag == "denomchange" && prop != "C14" {
		return 0
	}
	if flag == "minaccepts63" && prop != "C16" && prop != "C03" {
		return 0
	}
	return base
}

// NewRun draws the knobs of a run and returns the empty trace plus its generator.
func NewRun(prop string, seed int64, tier string) (*Trace, *Gen) {
	r := rand.New(rand.NewSource(seed))
	p := profileFor(prop, tier)
	g := &Gen{R: r, P: p, Prop: prop, Tier: tier, Flags: map[string]bool{}, voted: map[uint64]bool{}, down: map[int]bool{}}
	t := &Trace{Version: 1, Property: prop, Seed: seed, Profile: p.Name}
	for _, f := range allFlags {
		if g.pct(flagRate(prop, f)) {
			g.Flags[f] = true
			t.Flags = append(t.Flags, f)
		}
	}
	if (prop == "C05" || prop == "C04") && g.pct(6) {
		// whales paying whale fees: fee parameters at 2^63 and beyond together with balances and
		// purchase orders far above 2^64, so that one transaction's fee exceeds 64 bits and is
		// covered from locked eFUND
		for _, f := range []string{"huge", "bigfee"} {
			if !g.Flags[f] {
				g.Flags[f] = true
				t.Flags = append(t.Flags, f)
			}
		}
	}
	k := DefaultKnobs()
	k.NActors = 8 + r.Intn(5)
	g.N = k.NActors
	k.Kinds = make([]int, k.NActors)
	if g.Flags["vesting"] {
		for i := 3; i < k.NActors; i++ {
			if g.pct(45) {
				k.Kinds[i] = 1 + r.Intn(3)
			}
		}
	}
	if g.Flags["stakebond"] {
		k.BondDenom = Denom2
	}
	ns := 1 + r.Intn(4)
	k.Ent.Signers = nil
	for i := 0; i < ns; i++ {
		k.Ent.Signers = append(k.Ent.Signers, 1+i)
	}
	k.Ent.MinAccepts = uint64(1 + r.Intn(ns))
	k.Ent.Limit = pick(r, []uint64{5, 30, 60, 600, 86400, 172800})
	if g.pct(6) {
		k.Ent.Limit = hugeDecisionLimit(r)
	}
	k.Whitelist = nil
	for i := 3; i < k.NActors; i++ {
		if g.pct(50) {
			k.Whitelist = append(k.Whitelist, i)
		}
	}
	if (prop == "C14" || prop == "C05" || prop == "C04" || prop == "C02" || prop == "C03") && g.pct(20) {
		k.WhitelistGov = true
	}
	lim := [][2]uint64{{1, 1}, {1, 3}, {2, 5}, {3, 9}, {5, 9}, {2, 2}, {100, 300}, {50000, 600000}}
	fees := []uint64{1, 10, 1000, 1000000, 1000000000000}
	mk := func() RegParams {
		l := pick(r, lim)
		rp := RegParams{pick(r, fees), pick(r, fees), pick(r, fees[:4]), Native, l[0], l[1]}
		if g.Flags["bigfee"] && g.pct(50) {
			rp.FeeReg = 1<<63 + uint64(r.Intn(1000))
		}
		if g.Flags["bigfee"] && g.Flags["huge"] {
			// everybody can afford them: one storage purchase of two slots, or a registration used in
			// the transaction that creates it, then costs more than 64 bits hold
			if g.pct(50) {
				rp.FeePur = 1<<63 + uint64(pick(r, []int{0, 0, r.Intn(1000)})) // 2 x 2^63 = 0 in 64 bits: "no fee"
			}
			if g.pct(40) {
				rp.FeeRec = ^uint64(0) - uint64(r.Intn(3))
			}
		}
		return rp
	}
	k.Wrk, k.Beacon = mk(), mk()
	k.ValFee = pick(r, []string{"0", "0.000000000000000001", "0.01", "0.01", "0.24", "0.5", "1", fmt.Sprintf("0.%018d", r.Int63n(1e18))})
	if g.Flags["idwrap"] {
		k.StartPO, k.StartWrk, k.StartBeacon = ^uint64(0)-1, ^uint64(0)-1, ^uint64(0)-1
	} else if g.pct(25) {
		k.StartPO, k.StartWrk, k.StartBeacon = 1000, 4294967295, 256
	}
	if prop == "C15" && (tier == "thorough" && g.pct(10) || tier != "thorough" && g.pct(4)) || (prop == "C08" || prop == "C18" || prop == "C07") && (tier == "thorough" && g.pct(6) || tier != "thorough" && g.pct(2)) {
		// a registration with more records than an export carries, injected through genesis
		k.BigReg = &BigReg{Kind: pick(r, []string{"wrk", "bcn"}), N: ExportCap + uint64(pick(r, []int{1, 2, 5, 300}))}
		if k.StartWrk < 2 {
			k.StartWrk, k.StartBeacon = 2, 2
		}
		t.Flags = append(t.Flags, "bigreg")
	}
	if prop == "C02" && g.pct(5) && !g.Flags["idwrap"] {
		// an order the genesis document already holds (as an export taken between acceptance and
		// completion would), sometimes for a purchaser no transaction could name: an account the
		// bank refuses to credit, where completion cannot work and must not create coins
		k.GenesisOrder = &GenOrder{Purchaser: pick(r, []int{3, 4, AddrFeeCollector, AddrBonded, AddrGov}), Amount: pick(r, []string{"777", "1000000"}), Status: pick(r, []int{1, 2, 2})}
		t.Flags = append(t.Flags, "genesis-order")
	}
	if prop == "C14" && !g.Flags["denomchange"] && g.pct(30) {
		// a node started with --inv-check-period: the crisis end-blocker asserts every registered
		// invariant and halts the chain on a broken one
		k.InvCheckPeriod = pick(r, []uint{1, 1, 5})
	}
	if prop == "C17" && g.pct(6) {
		k.ManyDenoms = 100 + r.Intn(40)
	}
	if prop == "C17" && g.pct(60) {
		k.DenomsAfterNative = true
	}
	if prop == "C01" && g.pct(6) && !g.Flags["idwrap"] {
		// a raised order in the genesis document without a raise time (what a hand-edited or
		// migrated genesis looks like)
		k.GenesisOrder = &GenOrder{Purchaser: 3, Amount: "4242", Status: 1, NoRaiseTime: true}
	}
	if prop == "C04" && g.pct(4) {
		// started with --x-crisis-skip-assert-invariants from a document whose escrow is not backed
		k.UnbackedLocked, k.SkipGenesisInvariants = pick(r, []string{"1", "500000"}), true
		t.Flags = append(t.Flags, "unbacked-genesis")
	}
	if prop == "C02" && g.pct(3) {
		k.UnbackedLocked = pick(r, []string{"1", "123456789", "1000000000000000000000"})
		t.Flags = append(t.Flags, "unbacked-genesis")
	}
	if (prop == "C09" || prop == "C15") && g.pct(3) {
		// more registrations than any paged helper returns at once, injected through genesis
		k.ManyRegs = 101 + r.Intn(40)
	} else if (prop == "C07" || prop == "C08" || prop == "C09") && g.pct(5) {
		// a few registrations from genesis, the first one owned by an actor (upper-case spelling)
		k.ManyRegs = 2 + r.Intn(4)
		k.GenesisRegUpper = true
	}
	if k.ManyRegs > 0 {
		// the identifier counter may start beyond the last registration of the document
		gap := uint64(k.ManyRegs%3) * 5
		k.StartWrk, k.StartBeacon = uint64(k.ManyRegs)+1+gap, uint64(k.ManyRegs)+1+gap
		k.BigReg = nil
	}
	if prop == "C16" && g.pct(3) {
		k.BadGenesisParams = pick(r, []string{"ent:denom", "ent:min-accepts", "ent:signer", "ent:no-signers", "wrk:denom", "wrk:fee", "wrk:limit", "bcn:denom", "bcn:fee", "bcn:limit", "str:above-one", "str:negative"})
		t.Flags = append(t.Flags, "bad-genesis-params")
	}
	if prop == "C06" && g.pct(25) {
		k.RefMinGas = "0.000001" + Native
	}
	k.GovSecs = int64(10 + r.Intn(50))
	if g.Flags["huge"] {
		k.Balance = "10000000000000000000000000000000000000000" // 10^40
	}
	for i := 0; i < p.Replicas; i++ {
		cfg := NodeCfg{Pruning: pick(r, []string{"nothing", "everything", "custom"}), IAVLCache: pick(r, []int{0, 16, 781250}), NoFastNode: g.pct(40), InterBlock: g.pct(50), Backend: "memdb"}
		if g.pct(30) {
			cfg.MinGasPrices = "0.001nund"
		}
		cfg.Mempool = g.pct(50)
		if prop == "C01" && (tier == "thorough" && g.pct(25) || tier != "thorough" && g.pct(6)) {
			cfg.Backend = "goleveldb"
		}
		k.Nodes = append(k.Nodes, cfg)
	}
	k.RefMempool = g.pct(40)
	t.Knobs = k
	g.total = p.MinBlocks + r.Intn(p.MaxBlocks-p.MinBlocks+1)
	g.tail = 5
	return t, g
}

func (g *Gen) actor() int { return g.R.Intn(g.N) }

func (g *Gen) otherActor(not int) int {
	for {
		a := g.actor()
		if a != not {
			return a
		}
	}
}

func u64s(v uint64) string { return fmt.Sprintf("%d", v) }

// ---------------------------------------------------------------------------------------------

// NextBlock generates block bi given the world state after block bi-1.
func (g *Gen) NextBlock(w *World, bi int) (BlockSpec, bool) {
	if bi >= g.total {
		return BlockSpec{}, false
	}
	inTail := bi >= g.total-g.tail
	b := BlockSpec{DtMs: pick(g.R, g.P.Dt)}
	if g.Flags["longdur"] && g.pct(10) {
		b.DtMs = pick(g.R, []int64{86400000 * 365 * 50, 86400000 * 365 * 300})
	}
	// keep the block clock below year ~9000
	if g.simTime+b.DtMs/1000 > 200000000000 {
		b.DtMs = 1000
	}
	g.simTime += b.DtMs / 1000
	ntx := g.R.Intn(g.P.MaxTx + 1)
	// streams: aim the block time at a stream's advertised deposit-zero time (just before, at, just
	// after, also by less than a second) and release in that block
	if (g.Prop == "C10" || g.Prop == "C11" || g.Prop == "C12" || g.Prop == "C18") && !inTail && g.pct(12) {
		if keys := w.M.Str.keys(); len(keys) > 0 {
			st := w.M.Str.Streams[pick(g.R, keys)]
			if !st.ZeroOverflow && st.Zero.After(w.Now) {
				off := pick(g.R, []int64{-1500, -1000, -999, -600, -1, 0, 1, 400, 1000})
				target := st.Zero.Sub(w.Now).Milliseconds() + off
				if st.Zero.Sub(w.Now) < 100*365*24*3600*1e9 && target >= 1 && g.simTime+target/1000 < 200000000000 {
					g.simTime -= b.DtMs / 1000
					b.DtMs = target
					g.simTime += b.DtMs / 1000
					s, r := g.addrIdx(w, st.Sender), g.addrIdx(w, st.Receiver)
					var m MsgSpec
					switch g.R.Intn(4) {
					case 0, 1:
						m = MsgSpec{T: "str.claim", A: r, B: s}
					case 2:
						m = MsgSpec{T: "str.cancel", A: s, B: r}
					default:
						m = MsgSpec{T: "str.update", A: s, B: r, N: pick(g.R, []uint64{1, 2, 10, 1000})}
					}
					if m.A >= 0 {
						b.Txs = append(b.Txs, g.wrap(w, m))
						w.Fault("time.aimed_at_deposit_zero")
					}
				}
			}
		}
	}
	// votes for pending proposals first
	for _, id := range sortedU64(w.M.Gov.Pending) {
		if !g.voted[id] {
			g.voted[id] = true
			opt := uint64(1)
			if g.pct(10) {
				opt = 3 // no
			}
			b.Txs = append(b.Txs, TxSpec{Signer: 0, Gas: 400000, Msgs: []MsgSpec{{T: "gov.vote", A: 0, Id: id, N: opt}}})
		}
	}
	for i := 0; i < ntx; i++ {
		txs := g.genTx(w)
		for _, ts := range txs {
			if !inTail {
				g.txFaults(w, &ts)
			}
			if g.pct(g.P.CheckPct) {
				ts.Check = true
				if !inTail && !ts.SimOnly && g.pct(g.P.HoldPct) {
					// tx.drop: admitted, then left in the mempool (no proposer includes it)
					ts.CheckOnly = true
				}
			}
			b.Txs = append(b.Txs, ts)
		}
	}
	// proposer-level faults: reorder, duplicate
	if !inTail && len(b.Txs) > 1 && g.pct(15) {
		g.R.Shuffle(len(b.Txs), func(i, j int) { b.Txs[i], b.Txs[j] = b.Txs[j], b.Txs[i] })
		w.Fault("tx.reorder")
	}
	if !inTail && len(b.Txs) > 0 && g.pct(8) {
		src := pick(g.R, b.Txs)
		b.Txs = append(b.Txs, TxSpec{Signer: src.Signer, Replay: true, Tag: "dup"})
	}
	// replicas
	if g.P.NodeFaults {
		for n := 1; n <= g.P.Replicas; n++ {
			ev := NodeEvent{Node: n, Kind: "follow"}
			if g.pct(30) {
				ev.SkewS = pick(g.R, []int64{1, 60, 3600, 86400 * 365, 86400 * 365 * 30})
			}
			if g.pct(15) {
				ev.JumpS = pick(g.R, []int64{1, 3600, 86400 * 365 * 10})
			}
			ev.Proposal = pick(g.R, []string{"", "", "process", "process", "prepare"})
			if g.pct(8) {
				ev.SlowMs = pick(g.R, []int64{5, 40, 400})
			}
			if inTail {
				if g.down[n] {
					ev.Kind = "restart"
					g.down[n] = false
				}
			} else if g.down[n] {
				if g.pct(50) {
					ev.Kind = "restart"
					g.down[n] = false
				}
			} else if !g.anyDown() && g.pct(25) {
				ev.Kind = "crash"
				ev.At = pick(g.R, []string{"begin", "deliver", "deliver", "end", "commit", "commit.write", "commit.write", "commit.write", "disk.error"})
				ev.K = g.R.Intn(24)
				g.down[n] = true
			} else if g.pct(15) {
				ev.Kind = "lag"
			}
			b.Nodes = append(b.Nodes, ev)
		}
	}
	for i := 0; i < g.P.Queries; i++ {
		if g.pct(60) {
			b.Queries = append(b.Queries, g.genQuery(w, len(b.Txs)))
		}
	}
	for i := 0; i < g.P.Noise; i++ {
		if g.pct(50) {
			b.Noise = append(b.Noise, g.genNoise(len(b.Txs)))
		}
	}
	if g.Flags["ibc"] {
		// a wallet estimating gas for a transaction that is being delivered in this very block: the
		// simulation runs on the check state, which has not seen the block yet
		for i := range b.Txs {
			if len(b.Txs[i].Msgs) == 1 && strings.HasPrefix(b.Txs[i].Msgs[0].T, "ibc.") && g.pct(50) {
				b.Noise = append(b.Noise, NoiseSpec{Kind: "simulate", Tx: i, Pos: pick(g.R, []int{-1, i + 1, len(b.Txs)})})
			}
		}
	}
	if g.P.Export && !inTail && bi > 3 && g.pct(g.P.ExportPct) {
		b.Export = true
	}
	return b, true
}

func (g *Gen) anyDown() bool {
	for _, d := range g.down {
		if d {
			return true
		}
	}
	return false
}

func sortedU64[V any](m map[uint64]V) []uint64 {
	ks := make([]uint64, 0, len(m))
	for k := range m {
		ks = append(ks, k)
	}
	sort.Slice(ks, func(i, j int) bool { return ks[i] < ks[j] })
	return ks
}

func (g *Gen) category() string {
	if g.Flags["group"] && g.pct(7) || g.Flags["groupleave"] && g.pct(8) {
		return "grp"
	}
	if g.Flags["ibc"] && g.pct(10) {
		return "ibc"
	}
	tot := 0
	keys := sortedKeys(g.P.W)
	for _, k := range keys {
		tot += g.P.W[k]
	}
	x := g.R.Intn(tot)
	for _, k := range keys {
		x -= g.P.W[k]
		if x < 0 {
			return k
		}
	}
	return keys[0]
}

const ampleGas = 1500000

// genTx returns one or more transactions (some operations come as grant+exec pairs).
func (g *Gen) genTx(w *World) []TxSpec {
	cat := g.category()
	switch cat {
	case "ent":
		m := g.entMsg(w)
		return []TxSpec{g.wrap(w, m)}
	case "wrk", "bcn":
		m := g.regMsg(w, cat)
		return []TxSpec{g.wrap(w, m)}
	case "str":
		m := g.strMsg(w)
		if m.Tag == "whole_balance" && len(m.S) == 1 {
			away := MsgSpec{T: "bank.send", A: m.A, B: g.otherActor(m.A), Amt: m.S[0], Denom: m.Denom, Tag: "whole_balance"}
			m.S = nil
			return []TxSpec{{Signer: m.A, Gas: ampleGas, Msgs: []MsgSpec{away}}, {Signer: m.A, Gas: ampleGas, Msgs: []MsgSpec{m}}}
		}
		return []TxSpec{g.wrap(w, m)}
	case "gov":
		return []TxSpec{g.govTx(w)}
	case "bank":
		a := g.actor()
		m := MsgSpec{T: "bank.send", A: a, B: g.otherActor(a), Amt: u64s(uint64(1 + g.R.Intn(100000))), Denom: pick(g.R, []string{Native, Denom2, Denom3})}
		return []TxSpec{g.wrap(w, m)}
	case "stake":
		a := g.actor()
		t := pick(g.R, []string{"stake.delegate", "stake.undelegate", "dist.fundpool"})
		return []TxSpec{g.wrap(w, MsgSpec{T: t, A: a, Amt: u64s(uint64(1000 + g.R.Intn(1000000))), Denom: w.T.Knobs.BondDenom})}
	case "feegrant":
		a := g.actor()
		m := MsgSpec{T: "feegrant.grant", A: a, B: g.otherActor(a)}
		if g.Prop == "C15" && g.pct(70) {
			// an allowance with an expiry date, as wallets usually grant them
			m.N = uint64(w.Now.Unix() + pick(g.R, []int64{90, 600, 3600, 86400}))
			w.Fault("input.feegrant_with_expiry")
		}
		return []TxSpec{g.wrap(w, m)}
	case "attack":
		return []TxSpec{g.attackTx(w)}
	case "grp":
		return []TxSpec{g.groupTx(w)}
	case "ibc":
		return []TxSpec{g.ibcTx(w)}
	case "nest":
		return g.nestTx(w)
	case "multi":
		if g.pct(14) {
			return []TxSpec{g.multiSignerTx(w)}
		}
		// rejected multi-target transactions are where the order of metered reads matters (C01)
		if g.pct(map[bool]int{true: 35, false: 12}[g.Prop == "C01"]) {
			if ts, ok := g.multiPurchaseTx(w); ok {
				return []TxSpec{ts}
			}
		}
		if g.Flags["overflow"] && g.pct(20) {
			if ts, ok := g.doublePurchaseTx(w); ok {
				return []TxSpec{ts}
			}
		}
		return []TxSpec{g.multiTx(w)}
	}
	return nil
}

// ibcTx: the opening moves of an IBC handshake, which any account may make: a light client, a
// connection on it, a transfer channel on the connection, and the acknowledgement of a channel (its
// proof cannot verify - what matters is that every node refuses it in the same way). The handshake
// goes through x/capability, the one module of the application that keeps part of its state in
// process memory.
func (g *Gen) ibcTx(w *World) TxSpec {
	a := g.actor()
	var m MsgSpec
	switch {
	case g.ibcClients == 0 || g.pct(10):
		m = MsgSpec{T: "ibc.client", A: a}
		g.ibcClients++
	case g.ibcConns == 0 || g.pct(15):
		m = MsgSpec{T: "ibc.conninit", A: a, Id: uint64(g.R.Intn(g.ibcClients))}
		g.ibcConns++
	case g.ibcChans == 0 || g.pct(55):
		m = MsgSpec{T: "ibc.chaninit", A: a, Id: uint64(g.R.Intn(g.ibcConns))}
		g.ibcChans++
	default:
		m = MsgSpec{T: "ibc.chanack", A: a, Id: uint64(g.R.Intn(g.ibcChans))}
	}
	w.Fault("input.ibc_handshake")
	return TxSpec{Signer: a, Gas: ampleGas, Msgs: []MsgSpec{m}}
}

// multiPurchaseTx: one owner buys storage for several of its registrations (or twice for the same
// one) in a single transaction; some of the purchases may exceed what is left.
func (g *Gen) multiPurchaseTx(w *World) (TxSpec, bool) {
	kind := pick(g.R, []string{"wrk", "bcn"})
	rm := w.M.Wrk
	if kind == "bcn" {
		rm = w.M.Bcn
	}
	byOwner := map[string][]uint64{}
	for _, id := range rm.ids() {
		byOwner[rm.Regs[id].Owner] = append(byOwner[rm.Regs[id].Owner], id)
	}
	owners := sortedKeys(byOwner)
	if len(owners) == 0 {
		return TxSpec{}, false
	}
	ownerAddr := pick(g.R, owners)
	ids := byOwner[ownerAddr]
	owner := g.actorByAddr(w, ownerAddr)
	n := 2 + g.R.Intn(2)
	var msgs []MsgSpec
	for i := 0; i < n; i++ {
		id := pick(g.R, ids)
		reg := rm.Regs[id]
		room := new(big.Int).Sub(new(big.Int).SetUint64(rm.P.MaxLimit), reg.Limit)
		num := uint64(1 + g.R.Intn(3))
		if g.pct(35) && room.IsUint64() {
			num = room.Uint64() + uint64(1+g.R.Intn(2)) // more than is left
		}
		msgs = append(msgs, MsgSpec{T: kind + ".purchase", A: owner, Id: id, N: num})
	}
	w.Fault("msg.multi_purchase")
	ts := TxSpec{Signer: owner, Gas: ampleGas * 2, Msgs: msgs}
	g.setFee(w, &ts)
	return ts, true
}

// doublePurchaseTx: two storage purchases for the same registration in one transaction whose
// numbers wrap around 2^64 when summed (the per-transaction total is what the ante stage checks,
// the single numbers are what the handlers check).
func (g *Gen) doublePurchaseTx(w *World) (TxSpec, bool) {
	kind := pick(g.R, []string{"wrk", "bcn"})
	rm := w.M.Wrk
	if kind == "bcn" {
		rm = w.M.Bcn
	}
	ids := rm.ids()
	if len(ids) == 0 {
		return TxSpec{}, false
	}
	id := pick(g.R, ids)
	reg := rm.Regs[id]
	if !reg.Limit.IsUint64() {
		return TxSpec{}, false
	}
	owner := g.actorByAddr(w, reg.Owner)
	lim := reg.Limit.Uint64()
	big1 := ^uint64(0) - lim + uint64(1+g.R.Intn(2)) // limit + big1 wraps to a tiny value
	small := uint64(1 + g.R.Intn(3))
	a := MsgSpec{T: kind + ".purchase", A: owner, Id: id, N: big1}
	b := MsgSpec{T: kind + ".purchase", A: owner, Id: id, N: small}
	msgs := []MsgSpec{a, b}
	if g.pct(50) {
		msgs = []MsgSpec{b, a}
	}
	w.Fault("purchase.overflow_pair")
	ts := TxSpec{Signer: owner, Gas: ampleGas * 2, Msgs: msgs}
	g.setFee(w, &ts)
	return ts, true
}

func (g *Gen) customMsg(w *World) MsgSpec {
	switch g.R.Intn(4) {
	case 0:
		return g.entMsg(w)
	case 1:
		return g.regMsg(w, "wrk")
	case 2:
		return g.regMsg(w, "bcn")
	}
	return g.strMsg(w)
}

func signerOf(m *MsgSpec) int { return m.A }

// feeFor computes the module fee the chain's admission rule asks for, from the model's view of
// the current parameters (used by the generator only; the C06 oracle has its own computation).
func (g *Gen) feeFor(w *World, msgs []MsgSpec) *big.Int {
	return g.feeWith(w.M.Wrk.P, w.M.Bcn.P, msgs)
}

func (g *Gen) feeWith(wp, bp RegParams, msgs []MsgSpec) *big.Int {
	sum := new(big.Int)
	var walk func(ms []MsgSpec)
	walk = func(ms []MsgSpec) {
		for i := range ms {
			m := &ms[i]
			var p *RegParams
			if strings.HasPrefix(m.T, "wrk.") {
				p = &wp
			} else if strings.HasPrefix(m.T, "bcn.") {
				p = &bp
			}
			if p != nil {
				switch {
				case strings.HasSuffix(m.T, ".register"):
					sum.Add(sum, new(big.Int).SetUint64(p.FeeReg))
				case strings.HasSuffix(m.T, ".record"):
					sum.Add(sum, new(big.Int).SetUint64(p.FeeRec))
				case strings.HasSuffix(m.T, ".purchase"):
					sum.Add(sum, new(big.Int).Mul(new(big.Int).SetUint64(p.FeePur), new(big.Int).SetUint64(m.N)))
				}
			}
			walk(m.Inner)
		}
	}
	walk(msgs)
	return sum
}

// wrap builds the single-message transaction for m, signed by the party m names, with the exact
// module fee (perturbed when the profile is about fees).
func (g *Gen) wrap(w *World, m MsgSpec) TxSpec {
	if g.Flags["upcase"] && m.A >= 0 && g.pct(12) && (strings.HasPrefix(m.T, "ent.") || strings.HasPrefix(m.T, "wrk.") || strings.HasPrefix(m.T, "bcn.") || strings.HasPrefix(m.T, "str.")) && !strings.HasSuffix(m.T, ".params") {
		m.Up = true
		w.Fault("input.uppercase_address")
	}
	ts := TxSpec{Signer: signerOf(&m), Gas: ampleGas, Msgs: []MsgSpec{m}}
	g.setFee(w, &ts)
	return ts
}

func (g *Gen) setFee(w *World, ts *TxSpec) {
	fee := g.feeFor(w, ts.Msgs)
	denom := w.M.Wrk.P.Denom
	hasReg := fee.Sign() > 0
	if !hasReg {
		if len(ts.Msgs) == 1 && ts.Msgs[0].Tag == "whole_balance" {
			return
		}
		if g.pct(30) {
			ts.Fee = fmt.Sprintf("%d%s", 1+g.R.Intn(5000), Native)
		}
		return
	}
	perturb := 6
	if g.Prop == "C06" || g.Prop == "C16" {
		perturb = 45
	}
	if len(g.ghostReg) > 0 && g.pct(perturb/2+4) {
		// the exact fee under the parameters of the latest proposal (adopted, pending, rejected or
		// discarded): right only if those are the parameters in force
		wp, bp := w.M.Wrk.P, w.M.Bcn.P
		if x, ok := g.ghostReg["wrk"]; ok {
			wp = x
		}
		if x, ok := g.ghostReg["bcn"]; ok {
			bp = x
		}
		if gf := g.feeWith(wp, bp, ts.Msgs); gf.Sign() > 0 {
			fee = gf
			w.Fault("fee.per_proposed_params")
		}
	} else if fee.BitLen() > 64 && g.pct(perturb) {
		// a wallet that adds the fee up in 64 bits
		fee.And(fee, new(big.Int).SetUint64(^uint64(0)))
		w.Fault("fee.wrapped_to_64_bits")
	} else if g.pct(perturb) {
		switch g.R.Intn(6) {
		case 0:
			fee.Sub(fee, big.NewInt(1))
		case 1:
			fee.Add(fee, big.NewInt(1))
		case 2:
			fee.Mul(fee, big.NewInt(2))
		case 3:
			fee.SetInt64(0)
		case 4:
			fee.Quo(fee, big.NewInt(2))
		case 5:
			denom = Denom2
		}
		w.Fault("fee.perturbed")
	}
	if fee.Sign() <= 0 {
		ts.Fee = ""
	} else {
		ts.Fee = fee.String() + denom
	}
	if g.Flags["extrafee"] && g.pct(25) {
		extra := fmt.Sprintf("%d%s", 1+g.R.Intn(1000), pick(g.R, []string{Denom2, Denom3}))
		if ts.Fee == "" {
			ts.Fee = extra
		} else {
			ts.Fee = sortCoinString(ts.Fee + "," + extra)
		}
		w.Fault("fee.extra_denom")
	}
	if g.Flags["granter"] && g.pct(12) {
		ts.Granter = 1 + g.otherActor(ts.Signer)
		w.Fault("fee.granter")
	} else if g.Flags["granter"] && g.pct(14) {
		// a sponsor pays the fee and co-signs
		ts.Payer = 1 + g.otherActor(ts.Signer)
		w.Fault("fee.explicit_payer")
	}
}

// sortCoinString orders "1a,2b" style fee strings by denomination (the SDK wants sorted fees).
func sortCoinString(s string) string {
	parts := strings.Split(s, ",")
	den := func(x string) string {
		i := 0
		for i < len(x) && x[i] >= '0' && x[i] <= '9' {
			i++
		}
		return x[i:]
	}
	sort.SliceStable(parts, func(i, j int) bool { return den(parts[i]) < den(parts[j]) })
	return strings.Join(parts, ",")
}

func (g *Gen) txFaults(w *World, ts *TxSpec) {
	if !g.pct(g.P.FaultPct) {
		return
	}
	switch g.R.Intn(8) {
	case 0:
		ts.SigFault = pick(g.R, []string{"wrong_key", "wrong_chain", "wrong_accnum", "missing"})
	case 1:
		ts.SeqDelta = pick(g.R, []int{-1, 1, 2})
	case 2, 3, 4:
		ts.Gas = pick(g.R, []uint64{0, 1000, 20000, 40000, 55000, 65000, 75000, 90000, 110000, 140000})
		if len(ts.Msgs) > 1 || len(ts.Msgs) == 1 && len(ts.Msgs[0].Inner) > 0 {
			// several messages / wrapped messages: reach the later ones too
			ts.Gas = pick(g.R, []uint64{60000, 80000, 100000, 120000, 140000, 160000, 180000, 200000, 230000, 260000, 300000, 350000}) + uint64(g.R.Intn(9000))
		}
		w.Fault("gas.starve")
	case 5:
		ts.Replay = true
	case 6:
		// impersonation: someone else signs a tx whose messages name the victim
		ts.Signer = g.otherActor(ts.Signer)
		w.Fault("auth.impersonate")
	case 7:
		if ts.Fee != "" {
			// fee the payer cannot afford
			ts.Fee = "9" + strings.Repeat("0", 45) + Native
			w.Fault("fee.unaffordable")
		}
	}
}

// ---------------------------------------------------------------------------------------------
// enterprise

func (g *Gen) entSigner(w *World) int {
	if len(g.ghostSigners) > 0 && g.pct(15) {
		w.Fault("auth.ghost_signer")
		return pick(g.R, g.ghostSigners)
	}
	k := &w.T.Knobs
	if len(k.Ent.Signers) > 0 && g.pct(80) {
		// pick among the *current* signers as the model knows them
		cur := w.M.Ent.Signers
		s := pick(g.R, cur)
		for i, a := range w.Actors {
			if a.Bech() == s {
				return i
			}
		}
	}
	return g.actor()
}

func (g *Gen) entMsg(w *World) MsgSpec {
	e := w.M.Ent
	switch x := g.R.Intn(100); {
	case x < 35:
		// raise
		var p int
		wl := sortedKeys(boolMapToAny(e.Whitelist))
		if len(wl) > 0 && g.pct(80) {
			p = g.actorByAddr(w, pick(g.R, wl))
		} else {
			p = g.actor()
		}
		amt := u64s(uint64(1 + g.R.Intn(1000000)))
		if g.Flags["huge"] && g.pct(20) {
			amt = pick(g.R, []string{"9223372036854775808", "1000000000000000000000000", "28948022309329048855892746252171976963317496166410141009864396001978282409984"})
			if g.Prop == "C14" && g.pct(25) {
				amt = "115792089237316195423570985008687907853269984665640564039457584007913129639935" // 2^256-1
			}
		}
		denom := e.Denom
		if g.pct(4) {
			denom = Denom3
		}
		return MsgSpec{T: "ent.raise", A: p, Amt: amt, Denom: denom}
	case x < 80:
		// decide
		var raised []uint64
		for _, id := range e.orderIds() {
			if e.Orders[id].Status == 1 {
				raised = append(raised, id)
			}
		}
		id := e.NextID
		if len(raised) > 0 && g.pct(88) {
			id = pick(g.R, raised)
		} else if len(e.Orders) > 0 && g.pct(60) {
			id = pick(g.R, e.orderIds())
		}
		dec := uint64(2)
		if g.pct(35) {
			dec = 3
		}
		if g.pct(2) {
			dec = pick(g.R, []uint64{0, 1, 4, 9})
		}
		return MsgSpec{T: "ent.decide", A: g.entSigner(w), Id: id, N: dec}
	default:
		act := uint64(1)
		if g.pct(35) {
			act = 2
		}
		b := g.actor()
		if g.Flags["addr255"] && g.pct(30) {
			b = -(100 + pick(g.R, []int{1, 2, 19, 21, 32, 33, 254, 255}))
		}
		if g.pct(6) {
			// the governance account as a purchaser (it can act through proposals)
			b = AddrGov
		}
		return MsgSpec{T: "ent.whitelist", A: g.entSigner(w), B: b, N: act}
	}
}

func boolMapToAny(m map[string]bool) map[string]bool { return m }

func (g *Gen) actorByAddr(w *World, bech string) int {
	for i, a := range w.Actors {
		if a.Bech() == bech {
			return i
		}
	}
	return g.actor()
}

// ---------------------------------------------------------------------------------------------
// registries

func randStr(r *rand.Rand, n int) string {
	// hex in both cases plus the characters of base64, paths and labels: stored values must come
	// back exactly as submitted, spelling included
	const cs = "abcdef0123456789abcdef0123456789ABCDEFGHXYZ+/=_-.:"
	b := make([]byte, n)
	for i := range b {
		b[i] = cs[r.Intn(len(cs))]
	}
	return string(b)
}

// regStr: mostly plain random strings; sometimes with leading/trailing blanks or only blanks
// (registrations must store exactly what was submitted)
// rawStr is a free-text field holding bytes that are not UTF-8 ("hex:" form, see str()).
func (g *Gen) rawStr(n int) string {
	b := []byte(randStr(g.R, n))
	b[g.R.Intn(len(b))] = pick(g.R, []byte{0xff, 0xfe, 0xc0, 0x80, 0xed})
	if g.pct(30) {
		b = append(b, 0xe2, 0x82) // a truncated multi-byte sequence
	}
	return "hex:" + hex.EncodeToString(b)
}

func (g *Gen) regStr(limit int) string {
	if g.Flags["rawbytes"] && g.pct(20) {
		return g.rawStr(1 + g.R.Intn(10))
	}
	x := randStr(g.R, g.fieldLen(limit))
	switch g.R.Intn(40) {
	case 0:
		return " " + x
	case 1:
		return x + " "
	case 2:
		return "  " + x + "\t"
	case 3:
		return " "
	}
	return x
}

func (g *Gen) hashStr() string {
	if g.Flags["rawbytes"] && g.pct(10) {
		return g.rawStr(1 + g.R.Intn(10))
	}
	return randStr(g.R, g.fieldLen(66))
}

func (g *Gen) fieldLen(limit int) int {
	if g.pct(6) {
		return pick(g.R, []int{limit - 1, limit, limit + 1})
	}
	return 1 + g.R.Intn(12)
}

func (g *Gen) regMsg(w *World, kind string) MsgSpec {
	rm := w.M.Wrk
	if kind == "bcn" {
		rm = w.M.Bcn
	}
	ids := rm.ids()
	x := g.R.Intn(100)
	if len(ids) == 0 || x < 15 {
		owner := g.actor()
		if kind == "wrk" {
			gh := g.regStr(66)
			if g.pct(12) {
				gh = "" // a genesis hash is optional
			}
			return MsgSpec{T: "wrk.register", A: owner, S: []string{g.regStr(64), g.regStr(128), gh, pick(g.R, []string{"geth", "cosmos", "tendermint", "", " geth"})}}
		}
		return MsgSpec{T: "bcn.register", A: owner, S: []string{g.regStr(64), g.regStr(128)}}
	}
	id := pick(g.R, ids)
	if gh := g.ghosts[kind]; len(gh) > 0 && g.pct(25) {
		// prefer a registration whose identifier was once named in a discarded branch
		var cand []uint64
		for _, i := range ids {
			if _, ok := gh[i]; ok {
				cand = append(cand, i)
			}
		}
		if len(cand) > 0 {
			id = pick(g.R, cand)
		}
	}
	reg := rm.Regs[id]
	owner := g.actorByAddr(w, reg.Owner)
	if g.pct(10) {
		owner = g.actor()
	}
	if a, ok := g.ghosts[kind][id]; ok && g.pct(35) {
		owner = a
		w.Fault("auth.ghost_owner")
	}
	if g.pct(4) {
		id = pick(g.R, []uint64{0, rm.NextID, rm.NextID + 7, ^uint64(0)})
	}
	if x < 80 {
		if kind == "wrk" {
			h := reg.LastKey + 1
			switch y := g.R.Intn(100); {
			case y < 70:
			case y < 78:
				// gaps: mostly of one or two heights (a window that misses exactly one height is its
				// own case), sometimes wide
				h = reg.LastKey + pick(g.R, []uint64{2, 2, 2, 3, 3, 4, 7, uint64(2 + g.R.Intn(1000))})
			case y < 84:
				h = reg.LastKey
			case y < 90:
				if reg.LastKey > 1 {
					h = 1 + uint64(g.R.Int63n(int64(minU(reg.LastKey, 1<<62))))
				}
			case y < 93:
				h = pick(g.R, []uint64{255, 256, 4294967295, 4294967296, 1 << 62, 1 << 63})
				if reg.LastKey >= 1<<62 && reg.LastKey < ^uint64(0)-(1<<62) && g.pct(60) {
					// climbing beyond 2^63 in steps that are each smaller than 2^63
					h = reg.LastKey + 1<<62
				}
			case y < 95:
				h = ^uint64(0)
			case y < 97:
				h = 0
			}
			if n := len(reg.Kept); n > 0 && g.pct(8) {
				// unchanged data anchored again: the same hashes as the previous record
				w.Fault("input.same_hash_again")
				return MsgSpec{T: "wrk.record", A: owner, Id: id, N: h, S: append([]string(nil), reg.Kept[n-1].Fields...)}
			}
			return MsgSpec{T: "wrk.record", A: owner, Id: id, N: h, S: []string{g.hashStr(), g.hashStr(), g.hashStr(), randStr(g.R, 4), randStr(g.R, 4)}}
		}
		st := uint64(w.Now.Unix())
		if g.pct(20) {
			st = uint64(1 + g.R.Int63n(4000000000))
		}
		if g.pct(3) {
			st = 0
		}
		if n := len(reg.Kept); n > 0 && g.pct(10) {
			w.Fault("input.same_hash_again")
			return MsgSpec{T: "bcn.record", A: owner, Id: id, N: st, S: append([]string(nil), reg.Kept[n-1].Fields...)}
		}
		return MsgSpec{T: "bcn.record", A: owner, Id: id, N: st, S: []string{g.hashStr()}}
	}
	// purchase
	max := rm.P.MaxLimit
	lim := reg.Limit
	room := new(big.Int).Sub(new(big.Int).SetUint64(max), lim)
	n := uint64(1)
	switch y := g.R.Intn(100); {
	case y < 45:
		n = uint64(1 + g.R.Intn(3))
	case y < 65:
		if room.Sign() > 0 && room.IsUint64() {
			n = room.Uint64()
		}
	case y < 80:
		if room.Sign() >= 0 && room.IsUint64() {
			n = room.Uint64() + 1
		}
	case y < 85:
		n = 0
	default:
		if g.Flags["overflow"] {
			if lim.IsUint64() && g.pct(50) {
				n = ^uint64(0) - lim.Uint64() + uint64(1+g.R.Intn(3))
			} else {
				n = pick(g.R, []uint64{^uint64(0), 1 << 63, 1<<63 + 5})
			}
			w.Fault("purchase.overflow")
		}
	}
	return MsgSpec{T: kind + ".purchase", A: owner, Id: id, N: n}
}

func minU(a, b uint64) uint64 {
	if a < b {
		return a
	}
	return b
}

// ---------------------------------------------------------------------------------------------
// streams

func (g *Gen) strMsg(w *World) MsgSpec {
	sm := w.M.Str
	keys := sm.keys()
	x := g.R.Intn(100)
	if len(keys) == 0 || x < 22 {
		s := g.actor()
		r := g.otherActor(s)
		if g.Flags["addr255"] && g.pct(30) {
			r = -(100 + pick(g.R, []int{1, 2, 19, 21, 32, 33, 254, 255}))
		}
		rate := pick(g.R, []uint64{1, 1, 10, 1000, 1000000, 3, 7})
		dur := pick(g.R, []uint64{60, 61, 120, 600, 3600, 86400, 86400 * 30, 86400 * 365})
		if g.pct(5) {
			dur = uint64(g.R.Intn(60))
		}
		dep := new(big.Int).Mul(new(big.Int).SetUint64(rate), new(big.Int).SetUint64(dur))
		dep.Add(dep, big.NewInt(int64(g.R.Intn(int(rate)))))
		if g.Flags["huge"] && g.pct(35) {
			rate = pick(g.R, []uint64{1000000000000, 1 << 62, 1<<63 - 1, 1000000000000000, 2000000000000000001, 5000000000000000000})
			dep = new(big.Int).Mul(new(big.Int).SetUint64(rate), new(big.Int).SetUint64(dur))
			if g.pct(40) {
				// a deposit a few base units short of (or beyond) a whole number of seconds
				dep.Add(dep, new(big.Int).SetUint64(rate))
				dep.Add(dep, big.NewInt(pick(g.R, []int64{-3, -2, -1, 1, 2})))
			}
			if g.pct(30) {
				dep, _ = new(big.Int).SetString(pick(g.R, []string{"1000000000000000000000000", "1606938044258990275541962092341162602522202993782792835301376", "9223372036854775808000"}), 10)
			}
		}
		if g.Flags["longdur"] && g.pct(35) {
			rate = pick(g.R, []uint64{1, 2, 10})
			dep = new(big.Int).Mul(new(big.Int).SetUint64(rate), new(big.Int).SetUint64(pick(g.R, []uint64{9223372036, 9223372037, 10000000000, 31536000 * 400, 31536000 * 5000})))
		}
		return MsgSpec{T: "str.create", A: s, B: r, Amt: dep.String(), Denom: pick(g.R, []string{Native, Native, Denom2, Denom3}), N: rate}
	}
	st := sm.Streams[pick(g.R, keys)]
	s, r := g.addrIdx(w, st.Sender), g.addrIdx(w, st.Receiver)
	if g.pct(6) {
		s = g.actor()
	}
	if g.pct(6) {
		r = g.actor()
	}
	switch {
	case x < 55:
		return MsgSpec{T: "str.claim", A: r, B: s}
	case x < 75:
		amt := new(big.Int).Mul(st.Rate, big.NewInt(int64(1+g.R.Intn(5000))))
		if g.pct(20) {
			amt = big.NewInt(int64(1 + g.R.Intn(100)))
		}
		if g.Flags["huge"] && g.pct(10) {
			// more than anybody owns, up to the largest amount a coin can carry
			amt, _ = new(big.Int).SetString(pick(g.R, []string{"115792089237316195423570985008687907853269984665640564039457584007913129639935", "57896044618658097711785492504343953926634992332820282019728792003956564819968", "66749594872528440074844428317798503581334516323645399060845050244444366430645"}), 10)
			w.Fault("input.topup_beyond_any_balance")
		}
		denom := st.Denom
		if g.pct(4) {
			denom = Denom3
		}
		if s >= 0 && g.pct(6) {
			// everything the sender can spend of that denomination: the sender first moves all but a
			// modest remainder elsewhere, then tops up with exactly what is left (both without a fee)
			if bal := w.Ref.App.BankKeeper.SpendableCoins(w.Ctx(), AddrOf(w.Actors, s)).AmountOf(denom).BigInt(); bal.Cmp(amt) > 0 {
				w.Fault("input.topup_whole_balance")
				away := new(big.Int).Sub(bal, amt)
				return MsgSpec{T: "str.topup", A: s, B: r, Amt: amt.String(), Denom: denom, Tag: "whole_balance", S: []string{away.String()}}
			}
		}
		return MsgSpec{T: "str.topup", A: s, B: r, Amt: amt.String(), Denom: denom}
	case x < 88:
		rate := pick(g.R, []uint64{1, 2, 10, 1000, 1000000, 5})
		if g.Flags["huge"] && g.pct(30) {
			rate = pick(g.R, []uint64{1 << 62, 1<<63 - 1})
		}
		if g.pct(3) {
			rate = 0
		}
		return MsgSpec{T: "str.update", A: s, B: r, N: rate}
	default:
		return MsgSpec{T: "str.cancel", A: s, B: r}
	}
}

// addrIdx maps a bech32 address back to the index code AddrOf understands.
func (g *Gen) addrIdx(w *World, bech string) int {
	for i, a := range w.Actors {
		if a.Bech() == bech {
			return i
		}
	}
	for _, n := range []int{1, 2, 19, 21, 32, 33, 254, 255} {
		if AddrOf(w.Actors, -(100+n)).String() == bech {
			return -(100 + n)
		}
	}
	for k := uint64(1); k <= w.M.Grp.N && k < 900; k++ {
		if PolicyAddr(k).String() == bech {
			return -(2000 + int(k))
		}
	}
	for _, c := range []int{AddrGov, AddrEnterprise, AddrStream, AddrFeeCollector, AddrBonded, AddrDistr} {
		if AddrOf(w.Actors, c).String() == bech {
			return c
		}
	}
	return 0
}

// ---------------------------------------------------------------------------------------------
// governance

// mixedOrderPending: an order is still raised with both an accept and a reject on it.
func mixedOrderPending(e *EntModel) bool {
	for _, id := range e.orderIds() {
		o := e.Orders[id]
		if o.Status != 1 {
			continue
		}
		acc, rej := false, false
		for _, d := range o.Decisions {
			acc = acc || d.Decision == 2
			rej = rej || d.Decision == 3
		}
		if acc && rej {
			return true
		}
	}
	return false
}

func (g *Gen) paramMsg(w *World) MsgSpec {
	mod := pick(g.R, []string{"ent", "wrk", "bcn", "str"})
	valid := g.pct(65)
	auth := AddrGov
	shrink := false
	if mixedOrderPending(w.M.Ent) && g.pct(60) {
		// the signer set shrinks under an order that already carries an accept and a reject: with
		// the new, smaller numbers the order may satisfy the accept rule and the reject rule at once
		mod, valid, shrink = "ent", true, true
		w.Fault("gov.signers_shrink_under_mixed_order")
	}
	switch mod {
	case "ent":
		e := w.M.Ent
		ns := 1 + g.R.Intn(4)
		if shrink {
			ns = 1
		}
		idx := []string{}
		for i := 0; i < ns; i++ {
			idx = append(idx, fmt.Sprint(1+i))
		}
		if g.pct(30) {
			// a signer set that does not start at actor 1
			off := 1 + g.R.Intn(4)
			idx = idx[:0]
			for i := 0; i < ns; i++ {
				idx = append(idx, fmt.Sprint(1+off+i))
			}
		}
		for _, x := range idx {
			var a int
			fmt.Sscan(x, &a)
			g.ghostSigners = append(g.ghostSigners, a)
		}
		p := &ParamSpec{EntSigners: "@" + strings.Join(idx, ","), Denom: e.Denom, MinAccepts: uint64(1 + g.R.Intn(ns)), Limit: pick(g.R, []uint64{5, 30, 60, 600, 86400})}
		if g.pct(8) {
			p.Limit = hugeDecisionLimit(g.R)
		}
		if g.Flags["dupsigners"] && g.pct(40) {
			p.EntSigners = "@1,1," + strings.Join(idx, ",")
		}
		if g.Flags["denomchange"] && g.pct(50) {
			p.Denom = pick(g.R, []string{Denom3, "fund"})
			w.Fault("gov.denom_change")
		}
		if !valid {
			switch g.R.Intn(8) {
			case 0:
				p.MinAccepts = 0
			case 1:
				p.MinAccepts = uint64(ns + 1)
			case 2:
				p.Limit = 0
			case 3:
				p.Denom = pick(g.R, []string{"", " ", "1x", "a", e.Denom + " ", " " + e.Denom, e.Denom + "\t", "\n" + e.Denom, strings.ToUpper(e.Denom[:1]) + e.Denom[1:] + "!"})
			case 4:
				p.EntSigners = pick(g.R, []string{"", "garbage", AddrOf(w.Actors, 1).String() + ",", " " + AddrOf(w.Actors, 1).String(), AddrOf(w.Actors, 1).String() + ",und1xyz"})
			case 5:
				if g.Flags["minaccepts63"] {
					p.MinAccepts = pick(g.R, []uint64{1 << 63, ^uint64(0), 1<<63 + 1})
				} else {
					p.MinAccepts = uint64(ns + 2)
				}
			case 6:
				p.MinAccepts = uint64(ns + 1 + g.R.Intn(1000))
			case 7:
				p.EntSigners = ""
			}
		}
		return MsgSpec{T: "ent.params", A: auth, P: p}
	case "wrk", "bcn":
		cur := w.M.Wrk.P
		if mod == "bcn" {
			cur = w.M.Bcn.P
		}
		lim := pick(g.R, [][2]uint64{{1, 1}, {1, 3}, {2, 5}, {3, 9}, {5, 9}, {2, 2}, {100, 300}, {4, 4}, {1, 2}})
		fees := []uint64{1, 7, 10, 1000, 1000000}
		p := &ParamSpec{FeeReg: pick(g.R, fees), FeeRec: pick(g.R, fees), FeePur: pick(g.R, fees), Denom: cur.Denom, DefLimit: lim[0], MaxLimit: lim[1]}
		if g.Flags["bigfee"] && (g.Prop == "C16" && g.pct(25) || (g.Prop == "C06" || g.Prop == "C14") && g.pct(10)) || g.Prop == "C08" && g.pct(10) {
			// values at and around the 63/64-bit boundaries (all legal: positive, default <= maximum)
			edge := []uint64{1<<63 - 1, 1 << 63, 1<<63 + 1, ^uint64(0) - 1, ^uint64(0)}
			kind := g.R.Intn(4)
			if g.Prop == "C08" {
				kind = 2 + g.R.Intn(2) // the limits, not the fees: records have to stay affordable
				edge = append(edge, ^uint64(0), ^uint64(0), ^uint64(0))
			}
			switch kind {
			case 0:
				p.FeeReg = pick(g.R, edge)
			case 1:
				p.FeeRec, p.FeePur = pick(g.R, edge), pick(g.R, edge)
			case 2:
				p.MaxLimit = pick(g.R, edge)
			case 3:
				p.MaxLimit = pick(g.R, edge)
				p.DefLimit = pick(g.R, []uint64{p.MaxLimit, p.MaxLimit, p.MaxLimit - 1, 1 << 62})
			}
			w.Fault("gov.param_edge_value")
		}
		if !valid {
			switch g.R.Intn(7) {
			case 0:
				p.FeeReg = 0
			case 1:
				p.FeeRec = 0
			case 2:
				p.FeePur = 0
			case 3:
				p.DefLimit = 0
			case 4:
				p.MaxLimit = 0
			case 5:
				p.DefLimit = p.MaxLimit + 1
			case 6:
				p.Denom = pick(g.R, []string{"", "  ", "9", "x", cur.Denom + " ", " " + cur.Denom, cur.Denom + "\n", "\t" + cur.Denom, cur.Denom + "/"})
			}
		}
		if g.ghostReg == nil {
			g.ghostReg = map[string]RegParams{}
		}
		g.ghostReg[mod] = RegParams{p.FeeReg, p.FeeRec, p.FeePur, p.Denom, p.DefLimit, p.MaxLimit}
		return MsgSpec{T: mod + ".params", A: auth, P: p}
	default:
		v := pick(g.R, []string{"0", "0.000000000000000001", "0.01", "0.03", "0.5", "0.999999999999999999", "1"})
		if !valid {
			v = pick(g.R, []string{"-0.000000000000000001", "1.000000000000000001", "2", "-1", "nil"})
		}
		return MsgSpec{T: "str.params", A: auth, P: &ParamSpec{ValFee: v}}
	}
}

func (g *Gen) govTx(w *World) TxSpec {
	inner := []MsgSpec{g.paramMsg(w)}
	if g.pct(10) {
		inner = append(inner, g.paramMsg(w))
	}
	if g.pct(8) || w.T.Knobs.WhitelistGov && g.pct(35) || g.Prop == "C13" && g.pct(25) {
		// governance executing an arbitrary custom message with itself as the named party
		m := g.customMsg(w)
		if w.M.Ent.Whitelist[ModuleAddr("gov").String()] && g.pct(75) {
			m = MsgSpec{T: "ent.raise", Amt: u64s(uint64(1 + g.R.Intn(1000000))), Denom: w.M.Ent.Denom}
		}
		m.A = AddrGov
		inner = append(inner, m)
	}
	if (g.Prop == "C10" || g.Prop == "C11" || g.Prop == "C12" || g.Prop == "C14") && g.pct(7) {
		// the governance account as the sender of a stream it can afford from what it holds (the
		// deposits of the live proposals, in the bond denomination)
		inner = append(inner, MsgSpec{T: "str.create", A: AddrGov, B: g.actor(), Amt: u64s(uint64(60 * (1 + g.R.Intn(10)))), Denom: w.T.Knobs.BondDenom, N: uint64(1 + g.R.Intn(5))})
		w.Fault("gov.stream_from_gov_account")
	}
	if g.pct(15) {
		// a tail message that fails at execution: the proposal passes the vote, x/gov runs its
		// messages on a branch and must discard all of them
		inner = append(inner, MsgSpec{T: "bank.send", A: AddrGov, B: g.actor(), Amt: "9" + strings.Repeat("0", 40), Denom: Native, Tag: "failing_tail"})
		w.Fault("gov.proposal_with_failing_tail")
	}
	dep := "1000"
	if g.pct(10) {
		dep = "10"
	}
	return TxSpec{Signer: 0, Gas: ampleGas, Msgs: []MsgSpec{{T: "gov.submit", A: 0, Inner: inner, Amt: dep, Denom: w.T.Knobs.BondDenom}}}
}

// ---------------------------------------------------------------------------------------------
// attacks, nesting, multi-message

func (g *Gen) attackTx(w *World) TxSpec {
	a := g.actor()
	switch g.R.Intn(7) {
	case 0:
		return g.wrap(w, MsgSpec{T: "bank.send", A: a, B: pick(g.R, []int{AddrEnterprise, AddrStream, AddrFeeCollector, AddrBonded, AddrGov}), Amt: "1000", Denom: Native, Tag: "attack"})
	case 1:
		return g.wrap(w, MsgSpec{T: "bank.multisend", A: a, B: pick(g.R, []int{AddrEnterprise, AddrStream}), Amt: "1000", Denom: Native, Tag: "attack"})
	case 2:
		// a stream towards a module account (the bank refuses to credit most of them), sometimes
		// with the receiver written in the upper-case spelling of its address
		return g.wrap(w, MsgSpec{T: "str.create", A: a, B: pick(g.R, []int{AddrEnterprise, AddrStream, AddrGov, AddrFeeCollector, AddrBonded, AddrDistr}), Amt: "60000", Denom: Native, N: 10, Tag: "attack", UpB: g.pct(40)})
	case 3:
		// self-named: attacker names himself for someone else's entity
		m := g.customMsg(w)
		m.A = a
		m.Tag = "self_named"
		w.Fault("auth.self_named")
		return g.wrap(w, m)
	case 4:
		// parameter update with a non-governance authority
		m := g.paramMsg(w)
		m.A = pick(g.R, []int{a, AddrEnterprise, AddrStream})
		m.Tag = "attack"
		ts := g.wrap(w, m)
		if m.A < 0 {
			ts.Signer = a
		}
		return ts
	case 5:
		// gov-authority parameter update signed directly by the attacker
		m := g.paramMsg(w)
		ts := g.wrap(w, m)
		ts.Signer = a
		return ts
	default:
		// impersonation
		m := g.customMsg(w)
		ts := g.wrap(w, m)
		ts.Signer = g.otherActor(m.A)
		w.Fault("auth.impersonate")
		return ts
	}
}

func (g *Gen) nestTx(w *World) []TxSpec {
	m := g.customMsg(w)
	if !g.Flags["nest"] && (strings.HasPrefix(m.T, "wrk.") || strings.HasPrefix(m.T, "bcn.")) {
		m = g.strMsg(w)
		if g.pct(50) {
			m = g.entMsg(w)
		}
	}
	w.Fault("nest.exec")
	if m.A >= 0 && g.pct(18) {
		// a wrapper holding several messages, followed by further plain messages of the same signer:
		// whoever walks the transaction has to keep both the expansion and what comes after it
		inner := []MsgSpec{}
		for i, n := 0, 2+g.R.Intn(2); i < n; i++ {
			if g.pct(50) {
				inner = append(inner, MsgSpec{T: "bank.send", A: m.A, B: g.otherActor(m.A), Amt: u64s(uint64(1 + g.R.Intn(1000))), Denom: Native})
			} else {
				x := g.customMsg(w)
				x.A = m.A
				inner = append(inner, x)
			}
		}
		msgs := []MsgSpec{{T: "authz.exec", A: m.A, Inner: inner}, m}
		if g.pct(40) {
			y := g.customMsg(w)
			y.A = m.A
			msgs = append(msgs, y)
		}
		w.Fault("nest.exec_then_plain")
		ts := TxSpec{Signer: m.A, Gas: 2 * ampleGas, Msgs: msgs}
		g.setFeeNested(w, &ts)
		return []TxSpec{ts}
	}
	depth := 1 + g.R.Intn(3)
	if g.pct(8) {
		depth = pick(g.R, []int{4, 6, 7, 8, 12})
	}
	if g.pct(60) {
		// self-exec: the named party executes its own message through the wrapper
		cur := m
		for d := 0; d < depth; d++ {
			cur = MsgSpec{T: "authz.exec", A: m.A, Inner: []MsgSpec{cur}}
		}
		ts := TxSpec{Signer: m.A, Gas: ampleGas, Msgs: []MsgSpec{cur}}
		g.setFeeNested(w, &ts)
		return []TxSpec{ts}
	}
	// grant then exec by a grantee
	grantee := g.otherActor(m.A)
	grant := TxSpec{Signer: m.A, Gas: ampleGas, Msgs: []MsgSpec{{T: "authz.grant", A: m.A, B: grantee, S: []string{typeURLOf(m.T)}}}}
	exec := TxSpec{Signer: grantee, Gas: ampleGas, Msgs: []MsgSpec{{T: "authz.exec", A: grantee, Inner: []MsgSpec{m}}}}
	if m.A < 0 || g.pct(25) {
		// exec without a grant (must fail)
		g.setFeeNested(w, &exec)
		return []TxSpec{exec}
	}
	g.setFeeNested(w, &exec)
	return []TxSpec{grant, exec}
}

func (g *Gen) setFeeNested(w *World, ts *TxSpec) {
	// nested module messages: offer the full fee, none, or something else
	fee := g.feeFor(w, ts.Msgs)
	if fee.Sign() > 0 {
		switch g.R.Intn(3) {
		case 0:
			ts.Fee = fee.String() + w.M.Wrk.P.Denom
		case 1:
			ts.Fee = ""
		case 2:
			ts.Fee = "1" + w.M.Wrk.P.Denom
		}
	}
}

func typeURLOf(t string) string {
	m := map[string]string{
		"ent.raise": "/mainchain.enterprise.v1.MsgUndPurchaseOrder", "ent.decide": "/mainchain.enterprise.v1.MsgProcessUndPurchaseOrder", "ent.whitelist": "/mainchain.enterprise.v1.MsgWhitelistAddress",
		"wrk.register": "/mainchain.wrkchain.v1.MsgRegisterWrkChain", "wrk.record": "/mainchain.wrkchain.v1.MsgRecordWrkChainBlock", "wrk.purchase": "/mainchain.wrkchain.v1.MsgPurchaseWrkChainStateStorage",
		"bcn.register": "/mainchain.beacon.v1.MsgRegisterBeacon", "bcn.record": "/mainchain.beacon.v1.MsgRecordBeaconTimestamp", "bcn.purchase": "/mainchain.beacon.v1.MsgPurchaseBeaconStateStorage",
		"str.create": "/mainchain.stream.v1.MsgCreateStream", "str.claim": "/mainchain.stream.v1.MsgClaimStream", "str.topup": "/mainchain.stream.v1.MsgTopUpDeposit", "str.update": "/mainchain.stream.v1.MsgUpdateFlowRate", "str.cancel": "/mainchain.stream.v1.MsgCancelStream",
	}
	return m[t]
}

// multiTx: 2-4 messages by one signer; with some probability one of them is made to fail.
func (g *Gen) multiTx(w *World) TxSpec {
	n := 2 + g.R.Intn(3)
	var msgs []MsgSpec
	signer := -1
	if g.pct(20) {
		// register-and-use: a registration followed, in the same transaction, by operations on the
		// identifier it is about to receive (a common client pattern; with a later failing message
		// the whole transaction is rolled back and the identifier goes to the next registrant)
		kind := pick(g.R, []string{"wrk", "bcn"})
		rm := w.M.Wrk
		if kind == "bcn" {
			rm = w.M.Bcn
		}
		signer = g.actor()
		reg := MsgSpec{T: kind + ".register", A: signer, S: []string{randStr(g.R, 6), randStr(g.R, 6), randStr(g.R, 6), "geth"}}
		rec := MsgSpec{T: kind + ".record", A: signer, Id: rm.NextID, N: 1, S: []string{randStr(g.R, 8), "p", "1", "2", "3"}}
		if kind == "bcn" {
			rec.N = uint64(w.Now.Unix())
		}
		msgs = []MsgSpec{reg, rec}
		if g.pct(40) {
			msgs = append(msgs, MsgSpec{T: kind + ".purchase", A: signer, Id: rm.NextID, N: 1})
		}
		n = len(msgs)
		w.Fault("msg.register_and_use")
		g.addGhost(kind, rm.NextID, signer)
		if g.pct(30) {
			// the wallet only estimates gas for it and never broadcasts
			ts := TxSpec{Signer: signer, Gas: ampleGas * 2, Msgs: msgs, SimOnly: true}
			g.setFee(w, &ts)
			return ts
		}
	}
	for tries := 0; len(msgs) < n && tries < 40; tries++ {
		m := g.customMsg(w)
		if m.T == "str.claim" && g.pct(50) {
			continue
		}
		if signer == -1 {
			if m.A < 0 {
				continue
			}
			signer = m.A
		}
		if m.A != signer {
			// re-target the message to the tx signer where that keeps it meaningful
			if strings.HasSuffix(m.T, ".register") || m.T == "ent.raise" || m.T == "str.create" {
				m.A = signer
				if m.B == signer {
					m.B = g.otherActor(signer)
				}
			} else {
				continue
			}
		}
		msgs = append(msgs, m)
	}
	if signer == -1 {
		signer = g.actor()
		msgs = []MsgSpec{{T: "bank.send", A: signer, B: g.otherActor(signer), Amt: "1", Denom: Native}}
	}
	if g.pct(15) && signer >= 0 {
		// a wrapper among plain messages: the signer executes one more message of its own through
		// authz MsgExec, placed anywhere in the list
		var in MsgSpec
		if g.pct(50) {
			in = MsgSpec{T: "bank.send", A: signer, B: g.otherActor(signer), Amt: "1", Denom: Native}
		} else {
			in = g.customMsg(w)
			if in.A != signer {
				in = MsgSpec{T: "bank.send", A: signer, B: g.otherActor(signer), Amt: "2", Denom: Native}
			}
		}
		ex := MsgSpec{T: "authz.exec", A: signer, Inner: []MsgSpec{in}}
		k := g.R.Intn(len(msgs) + 1)
		msgs = append(msgs[:k], append([]MsgSpec{ex}, msgs[k:]...)...)
		w.Fault("msg.exec_among_plain")
	}
	if g.pct(35) {
		// make the k-th message fail
		k := g.R.Intn(len(msgs))
		bad := MsgSpec{T: pick(g.R, []string{"wrk.record", "bcn.record", "str.claim", "ent.decide"}), A: signer, B: g.otherActor(signer), Id: 987654321, N: 2, S: []string{"x"}, Tag: "kth_fails"}
		msgs = append(msgs[:k], append([]MsgSpec{bad}, msgs[k:]...)...)
		w.Fault("msg.kth_fails")
	}
	ts := TxSpec{Signer: signer, Gas: ampleGas * 2, Msgs: msgs}
	g.setFee(w, &ts)
	return ts
}

// ---------------------------------------------------------------------------------------------
// query noise

func (g *Gen) genQuery(w *World, ntx int) QuerySpec {
	kinds := []string{"ent.orders", "ent.whitelist", "wrk.list", "bcn.list", "str.all", "str.by_sender", "str.by_receiver", "supply.total", "supply.of"}
	q := QuerySpec{Kind: pick(g.R, kinds), A: g.actor(), Limit: uint64(1 + g.R.Intn(7)), Offset: g.pct(40), Count: g.pct(50), Rev: g.pct(15)}
	if g.pct(25) {
		q.Limit = uint64(50 + g.R.Intn(50))
	}
	q.Filter = pick(g.R, []string{"", "", "owner", "status", "moniker", "purchaser", "both"})
	q.Up = g.Prop == "C20" && g.pct(12)
	if g.Prop == "C20" && g.pct(8) {
		// the first few, then "all the rest"
		q.Limit = uint64(1 + g.R.Intn(3))
		q.Rest = pick(g.R, []uint64{1000, 1 << 32, 1 << 63, ^uint64(0) - 1, ^uint64(0)})
	} else if g.Prop == "C20" && g.pct(4) {
		// "everything at once"
		q.Limit = pick(g.R, []uint64{1 << 63, ^uint64(0) - 1, ^uint64(0)})
	}
	q.MidTx = -1
	if g.pct(35) && ntx > 0 {
		q.MidTx = g.R.Intn(ntx + 1)
	}
	return q
}

// genNoise draws one call on a non-consensus ABCI surface of the reference node.
func (g *Gen) genNoise(ntx int) NoiseSpec {
	kind := pick(g.R, []string{"simulate", "simulate", "simulate", "simulate", "simulate", "simulate", "recheck", "recheck", "recheck", "prepare", "prepare", "process", "process", "process", "info", "store", "store", "hist", "hist"})
	ns := NoiseSpec{Kind: kind, Tx: g.R.Intn(8), N: uint64(g.R.Intn(1000))}
	switch kind {
	case "prepare", "process":
		ns.Pos = -2
	default:
		ns.Pos = pick(g.R, []int{-3, -2, -1, g.R.Intn(ntx + 1), g.R.Intn(ntx + 1), g.R.Intn(ntx + 1)})
	}
	return ns
}

// groupTx: x/group traffic. A one-member group's policy account (a 32-byte address) acts through
// proposals that are voted and executed inside the submitting transaction (EXEC_TRY): it registers
// WRKChains/BEACONs, records, buys storage, funds streams. Proposers are the admin or, sometimes,
// an outsider (the group module must refuse).
func (g *Gen) groupTx(w *World) TxSpec {
	gm := w.M.Grp
	if g.Flags["groupleave"] {
		// a member-run group with a percentage policy: created, a proposal put to the vote (not
		// executed at once), and members leaving while it is open
		switch {
		case gm.N == 0 || g.pct(20):
			a := g.actor()
			w.Fault("group.create")
			if g.pct(35) {
				return TxSpec{Signer: a, Gas: 40 * ampleGas, Msgs: []MsgSpec{{T: "grp.create", A: a, B: g.otherActor(a), N: 3}}}
			}
			return TxSpec{Signer: a, Gas: ampleGas, Msgs: []MsgSpec{{T: "grp.create", A: a, N: 2}}}
		case gm.Props > 0 && g.pct(30):
			k := 1 + uint64(g.R.Intn(int(gm.N)))
			admin := g.actorByAddr(w, gm.Admin[k])
			w.Fault("group.vote")
			return TxSpec{Signer: admin, Gas: 40 * ampleGas, Msgs: []MsgSpec{{T: "grp.vote", A: admin, Id: 1 + uint64(g.R.Intn(int(gm.Props)))}}}
		case g.pct(55):
			k := 1 + uint64(g.R.Intn(int(gm.N)))
			admin := g.actorByAddr(w, gm.Admin[k])
			var inner []MsgSpec
			if g.pct(50) {
				inner = []MsgSpec{{T: "bank.send", A: -(2000 + int(k)), B: admin, Amt: "1", Denom: Native}}
			}
			w.Fault("group.proposal_open")
			return TxSpec{Signer: admin, Gas: ampleGas, Msgs: []MsgSpec{{T: "grp.submit", A: admin, Id: k, N: 0, Inner: inner}}}
		default:
			k := 1 + uint64(g.R.Intn(int(gm.N)))
			admin := g.actorByAddr(w, gm.Admin[k])
			w.Fault("group.member_leaves")
			return TxSpec{Signer: admin, Gas: ampleGas, Msgs: []MsgSpec{{T: "grp.leave", A: admin, Id: k}}}
		}
	}
	if gm.N == 0 || g.pct(15) && gm.N < 6 {
		a := g.actor()
		w.Fault("group.create")
		return TxSpec{Signer: a, Gas: ampleGas, Msgs: []MsgSpec{{T: "grp.create", A: a}}}
	}
	k := 1 + uint64(g.R.Intn(int(gm.N)))
	code := -(2000 + int(k))
	pol := PolicyAddr(k).String()
	admin := g.actorByAddr(w, gm.Admin[k])
	if g.pct(12) {
		// fund the policy account so that it can pay for streams
		return g.wrap(w, MsgSpec{T: "bank.send", A: admin, B: code, Amt: u64s(uint64(1000 + g.R.Intn(1000000))), Denom: pick(g.R, []string{Native, Denom2})})
	}
	var inner MsgSpec
	kind := pick(g.R, []string{"wrk", "bcn"})
	rm := w.M.Wrk
	if kind == "bcn" {
		rm = w.M.Bcn
	}
	var own []uint64
	for _, id := range rm.ids() {
		if rm.Regs[id].Owner == pol {
			own = append(own, id)
		}
	}
	switch x := g.R.Intn(100); {
	case x < 12:
		r := g.actor()
		inner = MsgSpec{T: "str.create", A: code, B: r, Amt: u64s(uint64(60 * (1 + g.R.Intn(50)))), Denom: Native, N: 1}
	case len(own) == 0 || x < 35:
		inner = MsgSpec{T: kind + ".register", A: code, S: []string{randStr(g.R, 6), randStr(g.R, 8), randStr(g.R, 6), "geth"}}
	case x < 85:
		id := pick(g.R, own)
		reg := rm.Regs[id]
		if kind == "wrk" {
			inner = MsgSpec{T: "wrk.record", A: code, Id: id, N: reg.LastKey + 1, S: []string{randStr(g.R, 8), randStr(g.R, 8), "1", "2", "3"}}
		} else {
			inner = MsgSpec{T: "bcn.record", A: code, Id: id, N: uint64(w.Now.Unix()), S: []string{randStr(g.R, 8)}}
		}
	default:
		inner = MsgSpec{T: kind + ".purchase", A: code, Id: pick(g.R, own), N: uint64(1 + g.R.Intn(2))}
	}
	proposer := admin
	if g.pct(12) {
		proposer = g.otherActor(admin)
	}
	w.Fault("group.proposal_exec")
	ts := TxSpec{Signer: proposer, Gas: ampleGas * 2, Msgs: []MsgSpec{{T: "grp.submit", A: proposer, Id: k, N: 1, Inner: []MsgSpec{inner}}}}
	g.setFee(w, &ts)
	return ts
}

// multiSignerTx: one transaction carrying messages of two (sometimes three) different accounts,
// signed by all of them; the first one named pays the fee. Whose locked eFUND, whose sequence,
// whose entitlement is looked at must follow the message, not the position.
func (g *Gen) multiSignerTx(w *World) TxSpec {
	n := 2 + g.R.Intn(2)
	var msgs []MsgSpec
	seen := map[int]bool{}
	for tries := 0; len(msgs) < n && tries < 30; tries++ {
		var m MsgSpec
		if g.pct(25) {
			a := g.actor()
			m = MsgSpec{T: "bank.send", A: a, B: g.otherActor(a), Amt: u64s(uint64(1 + g.R.Intn(1000))), Denom: Native}
		} else {
			m = g.customMsg(w)
		}
		if m.A < 0 || seen[m.A] {
			continue
		}
		seen[m.A] = true
		msgs = append(msgs, m)
	}
	if len(msgs) == 0 {
		a := g.actor()
		msgs = []MsgSpec{{T: "bank.send", A: a, B: g.otherActor(a), Amt: "1", Denom: Native}}
	}
	ts := TxSpec{Signer: msgs[0].A, Gas: ampleGas * 2, Msgs: msgs, Multi: true}
	g.setFee(w, &ts)
	return ts
}

// hugeDecisionLimit: legal "never expires" settings of the decision time limit (validation only asks for > 0);
// raise time + limit does not fit 64 bits for any of them, so a deadline computed as a sum wraps into the past.
func hugeDecisionLimit(r *rand.Rand) uint64 {
	return pick(r, []uint64{math.MaxUint64, math.MaxUint64 - 1, math.MaxUint64 - uint64(GenesisTS) + uint64(r.Intn(100000)), 1<<63 + uint64(r.Intn(1000)), math.MaxInt64})
}
