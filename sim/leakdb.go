package simnet

import (
	"fmt"
	"os"
	"runtime"
	"sort"
	"strings"
	"sync"

	dbm "github.com/cometbft/cometbft-db"
)

// leakDB wraps the reference node's database and keeps track of the iterators that are open. An
// iterator of the in-memory database holds the database's read lock until it is closed, so an
// iterator left open (a Close that is not deferred and is skipped by a panic or an early return)
// makes the next Commit wait forever. The harness looks before every Commit and turns what would be
// a hang of the run into a report that names the code which opened the iterator.
type leakDB struct {
	dbm.DB
	mu   sync.Mutex              // a genesis export reads the database from one goroutine per module
	open map[*leakIter][]uintptr // program counters of the call that opened it (resolved only when needed)
}

type leakIter struct {
	dbm.Iterator
	db *leakDB
}

func newLeakDB(db dbm.DB) *leakDB { return &leakDB{DB: db, open: map[*leakIter][]uintptr{}} }

func (l *leakDB) track(it dbm.Iterator, err error) (dbm.Iterator, error) {
	if err != nil {
		return it, err
	}
	li := &leakIter{Iterator: it, db: l}
	pcs := make([]uintptr, 48)
	pcs = pcs[:runtime.Callers(2, pcs)]
	l.mu.Lock()
	l.open[li] = pcs
	l.mu.Unlock()
	return li, nil
}

func (l *leakDB) Iterator(start, end []byte) (dbm.Iterator, error) {
	return l.track(l.DB.Iterator(start, end))
}

func (l *leakDB) ReverseIterator(start, end []byte) (dbm.Iterator, error) {
	return l.track(l.DB.ReverseIterator(start, end))
}

func (i *leakIter) Close() error {
	i.db.mu.Lock()
	delete(i.db.open, i)
	i.db.mu.Unlock()
	return i.Iterator.Close()
}

// leaked returns the (mainchain) frames of the code that opened the iterators still open, and
// closes them so that the run can go on.
func (l *leakDB) leaked() []string {
	var out []string
	l.mu.Lock()
	defer l.mu.Unlock()
	for it, pcs := range l.open {
		// an exhausted iterator has given the lock back by itself; one that stopped half-way has not
		if it.Iterator.Valid() {
			st := stackOf(pcs)
			out = append(out, openerOf(st))
			if os.Getenv("SIM_LEAKDBG") == "2" {
				fmt.Fprintln(os.Stderr, st)
			}
		}
		it.Iterator.Close()
		delete(l.open, it)
	}
	sort.Strings(out)
	return out
}

// releaseDangling closes the iterators somebody left open half-way on the node's in-memory database
// (see leakDB) and says who opened them. To be called before every Commit.
func (n *Node) releaseDangling() []string {
	var l *leakDB
	switch d := n.DB.(type) {
	case *leakDB:
		l = d
	case *FaultDB:
		l, _ = d.DB.(*leakDB)
	}
	if l == nil {
		return nil
	}
	return l.leaked()
}

func stackOf(pcs []uintptr) string {
	var b strings.Builder
	frames := runtime.CallersFrames(pcs)
	for {
		f, more := frames.Next()
		b.WriteString(f.Function + "(\n")
		if !more {
			break
		}
	}
	return b.String()
}

func openerOf(stack string) string {
	var own []string
	for _, ln := range strings.Split(stack, "\n") {
		if strings.HasPrefix(ln, "github.com/unification-com/mainchain/") {
			own = append(own, strings.TrimPrefix(strings.SplitN(ln, "(", 2)[0], "github.com/unification-com/mainchain/"))
		}
	}
	if len(own) == 0 {
		return "outside-mainchain"
	}
	if len(own) > 3 {
		own = own[:3]
	}
	return fmt.Sprint(own)
}
