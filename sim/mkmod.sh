#!/bin/bash
# Regenerates sim/go.mod + go.sum from the repository's own go.mod so that the harness always
# builds against exactly the dependency set of the tree under test ($VERIF_REPO, default /repo).
set -euo pipefail
REPO="${VERIF_REPO:-/repo}"
DIR="$(cd "$(dirname "$0")" && pwd)"
TMP="$DIR/go.mod.tmp.$$"
{
  echo "module simnet"
  echo
  echo "go 1.26.8"
  echo
  # requires of the repo (both blocks), verbatim
  awk '/^require \(/{p=1} p{print} /^\)/{if(p){p=0; print ""}}' "$REPO/go.mod"
  echo "require github.com/unification-com/mainchain v0.0.0"
  echo
  echo "replace ("
  awk '/^replace \(/{p=1; next} /^\)/{p=0} p{print}' "$REPO/go.mod"
  echo "	github.com/unification-com/mainchain => $REPO"
  echo ")"
} > "$TMP"
if ! cmp -s "$TMP" "$DIR/go.mod" 2>/dev/null; then mv "$TMP" "$DIR/go.mod"; else rm -f "$TMP"; fi
if ! cmp -s "$REPO/go.sum" "$DIR/go.sum" 2>/dev/null; then cp "$REPO/go.sum" "$DIR/go.sum"; fi
