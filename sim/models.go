package simnet

// models.go — small executable reference models written from the property statements (not from
// the implementation): enterprise purchase orders, the two registries, payment streams, and the
// governance bookkeeping needed to know when a parameter update took effect.
//
// The models are driven by what the chain *reports* (a transaction succeeded or not) and predict
// (a) where the statements determine it, that an operation must fail, and (b) the post-state that
// monitors compare with the real application.

import (
	"fmt"
	"math/big"
	"sort"
	"strconv"
	"strings"
	"time"

	abci "github.com/cometbft/cometbft/abci/types"
	sdk "github.com/cosmos/cosmos-sdk/types"
	"github.com/cosmos/cosmos-sdk/x/authz"
	govtypes "github.com/cosmos/cosmos-sdk/x/gov/types"
	govv1 "github.com/cosmos/cosmos-sdk/x/gov/types/v1"
	"github.com/cosmos/cosmos-sdk/x/group"

	beacontypes "github.com/unification-com/mainchain/x/beacon/types"
	enttypes "github.com/unification-com/mainchain/x/enterprise/types"
	streamtypes "github.com/unification-com/mainchain/x/stream/types"
	wrkchaintypes "github.com/unification-com/mainchain/x/wrkchain/types"
)

// ---------------------------------------------------------------------------------------------
// enterprise

type Decision struct {
	Signer   string
	Decision int // 2 accept, 3 reject (enum values of the API)
	Time     uint64
}

type Order struct {
	Id             uint64
	Purchaser      string
	Amount         *big.Int
	Denom          string
	Status         int // 1 raised 2 accepted 3 rejected 4 completed
	RaiseTime      uint64
	CompletionTime uint64
	Decisions      []Decision
	AcceptedAtBlk  int
	Fuzzy          bool // a don't-care step was taken for this order (time boundary)
}

type EntModel struct {
	DenomChanged bool // governance changed the enterprise denomination at least once in this run
	Signers      []string
	SignersRaw   string
	Denom        string
	MinAccepts   uint64
	Limit        uint64
	Whitelist    map[string]bool
	Orders       map[uint64]*Order
	NextID       uint64
	Completed    map[string]*big.Int // Σ completed orders per purchaser since genesis
	Minted       []uint64            // ids completed in the last BeginBlock
}

func (e *EntModel) clone() *EntModel {
	c := *e
	c.Signers = append([]string(nil), e.Signers...)
	c.Whitelist = map[string]bool{}
	for k, v := range e.Whitelist {
		c.Whitelist[k] = v
	}
	c.Orders = map[uint64]*Order{}
	for k, v := range e.Orders {
		o := *v
		o.Amount = new(big.Int).Set(v.Amount)
		o.Decisions = append([]Decision(nil), v.Decisions...)
		c.Orders[k] = &o
	}
	c.Completed = map[string]*big.Int{}
	for k, v := range e.Completed {
		c.Completed[k] = new(big.Int).Set(v)
	}
	c.Minted = nil
	return &c
}

func (e *EntModel) isSigner(a string) bool {
	for _, s := range e.Signers {
		if s == a {
			return true
		}
	}
	return false
}

func (e *EntModel) setSigners(raw string) {
	e.SignersRaw = raw
	e.Signers = nil
	for _, s := range strings.Split(raw, ",") {
		e.Signers = append(e.Signers, s)
	}
}

func (e *EntModel) orderIds() []uint64 {
	ids := make([]uint64, 0, len(e.Orders))
	for id := range e.Orders {
		ids = append(ids, id)
	}
	sort.Slice(ids, func(i, j int) bool { return ids[i] < ids[j] })
	return ids
}

// beginBlock is the statement of C03: first complete every order accepted in an earlier block,
// then tally every raised order.
func (e *EntModel) beginBlock(now uint64, blk int) {
	e.Minted = nil
	for _, id := range e.orderIds() {
		o := e.Orders[id]
		if o.Status == 2 {
			o.Status = 4
			if e.Completed[o.Purchaser] == nil {
				e.Completed[o.Purchaser] = new(big.Int)
			}
			e.Completed[o.Purchaser].Add(e.Completed[o.Purchaser], o.Amount)
			e.Minted = append(e.Minted, id)
		}
	}
	nSigners := uint64(len(e.Signers))
	for _, id := range e.orderIds() {
		o := e.Orders[id]
		if o.Status != 1 {
			continue
		}
		var acc, rej uint64
		for _, d := range o.Decisions {
			if d.Decision == 2 {
				acc++
			}
			if d.Decision == 3 {
				rej++
			}
		}
		passed := now >= o.RaiseTime && now-o.RaiseTime >= e.Limit
		rejThreshold := int64(nSigners) - int64(e.MinAccepts)
		switch {
		case passed && acc < e.MinAccepts:
			o.Status, o.CompletionTime = 3, now
		case int64(rej) > rejThreshold:
			o.Status, o.CompletionTime = 3, now
		case acc >= e.MinAccepts:
			o.Status, o.CompletionTime, o.AcceptedAtBlk = 2, now, blk
		}
	}
}

// ---------------------------------------------------------------------------------------------
// registries (wrkchain, beacon)

type Rec struct {
	Key    uint64 // height (wrkchain) or timestamp id (beacon)
	Fields []string
	Time   uint64
}

type Reg struct {
	Id      uint64
	Owner   string
	Meta    []string // moniker, name, genesis, type
	RegTime uint64
	Limit   *big.Int
	Kept    []Rec  // records currently held, oldest first
	Total   uint64 // total ever accepted
	LastKey uint64
	Pruned  []uint64 // keys pruned so far (bounded sample)
}

type RegModel struct {
	Kind   string // "wrk" | "bcn"
	P      RegParams
	NextID uint64
	Regs   map[uint64]*Reg
}

func (r *RegModel) clone() *RegModel {
	c := *r
	c.Regs = map[uint64]*Reg{}
	for k, v := range r.Regs {
		x := *v
		x.Limit = new(big.Int).Set(v.Limit)
		x.Kept = append([]Rec(nil), v.Kept...)
		x.Pruned = append([]uint64(nil), v.Pruned...)
		x.Meta = append([]string(nil), v.Meta...)
		c.Regs[k] = &x
	}
	return &c
}

func (r *RegModel) ids() []uint64 {
	ids := make([]uint64, 0, len(r.Regs))
	for id := range r.Regs {
		ids = append(ids, id)
	}
	sort.Slice(ids, func(i, j int) bool { return ids[i] < ids[j] })
	return ids
}

func (g *Reg) addRecord(rec Rec) {
	g.Kept = append(g.Kept, rec)
	g.Total++
	g.LastKey = rec.Key
	for big.NewInt(int64(len(g.Kept))).Cmp(g.Limit) > 0 && len(g.Kept) > 0 {
		if len(g.Pruned) < 64 {
			g.Pruned = append(g.Pruned, g.Kept[0].Key)
		}
		g.Kept = g.Kept[1:]
	}
}

// ---------------------------------------------------------------------------------------------
// streams

type Stream struct {
	Sender, Receiver string
	Denom            string
	Remaining        *big.Int
	Rate             *big.Int
	Last             time.Time // previous release, or the moment funding (re)started
	Zero             time.Time // advertised deposit-zero time
	ZeroOverflow     bool      // the advertised time is not representable (beyond year 9999 / int64 ns)
	// ledger
	Deposited, Paid, Fees, Refunded *big.Int
}

type StreamModel struct {
	ValFee  *big.Rat
	Streams map[string]*Stream
}

func skey(sender, receiver string) string { return receiver + "|" + sender }

func (s *StreamModel) clone() *StreamModel {
	c := &StreamModel{ValFee: new(big.Rat).Set(s.ValFee), Streams: map[string]*Stream{}}
	for k, v := range s.Streams {
		x := *v
		x.Remaining = new(big.Int).Set(v.Remaining)
		x.Rate = new(big.Int).Set(v.Rate)
		x.Deposited = new(big.Int).Set(v.Deposited)
		x.Paid = new(big.Int).Set(v.Paid)
		x.Fees = new(big.Int).Set(v.Fees)
		x.Refunded = new(big.Int).Set(v.Refunded)
		c.Streams[k] = &x
	}
	return c
}

func (s *StreamModel) keys() []string { return sortedKeys(s.Streams) }

var maxTime = time.Date(9999, 12, 31, 23, 59, 59, 0, time.UTC)

// addSeconds returns t + n seconds, flagging overflow of the representable range.
func addSeconds(t time.Time, n *big.Int) (time.Time, bool) {
	lim := big.NewInt(maxTime.Unix() - t.Unix())
	if n.Cmp(lim) > 0 {
		return maxTime, true
	}
	return time.Unix(t.Unix()+n.Int64(), int64(t.Nanosecond())).UTC(), false
}

// wholeSeconds between two instants (floor), as a big.Int; zero if b is not after a.
func wholeSeconds(a, b time.Time) *big.Int {
	if !b.After(a) {
		return new(big.Int)
	}
	ns := new(big.Int).Sub(big.NewInt(0).SetInt64(b.Unix()), big.NewInt(a.Unix()))
	ns.Mul(ns, big.NewInt(1e9))
	ns.Add(ns, big.NewInt(int64(b.Nanosecond()-a.Nanosecond())))
	return ns.Quo(ns, big.NewInt(1e9))
}

// release computes and applies a release at time now; returns the amount released.
func (st *Stream) release(now time.Time) *big.Int {
	pay := new(big.Int)
	if st.Remaining.Sign() <= 0 {
		st.Last = now
		return pay
	}
	if !st.ZeroOverflow && !now.Before(st.Zero) {
		pay.Set(st.Remaining)
	} else {
		pay.Mul(st.Rate, wholeSeconds(st.Last, now))
		if pay.Cmp(st.Remaining) > 0 {
			pay.Set(st.Remaining)
		}
	}
	st.Remaining.Sub(st.Remaining, pay)
	st.Last = now
	return pay
}

func floorDiv(a, b *big.Int) *big.Int {
	if b.Sign() == 0 {
		return new(big.Int)
	}
	return new(big.Int).Quo(a, b)
}

// split returns (receiver part, validator fee) of a release under the fee rate.
func (s *StreamModel) split(released *big.Int) (*big.Int, *big.Int) {
	fee := new(big.Int).Mul(released, s.ValFee.Num())
	fee.Quo(fee, s.ValFee.Denom())
	return new(big.Int).Sub(released, fee), fee
}

// ---------------------------------------------------------------------------------------------
// governance bookkeeping

type Proposal struct {
	Id   uint64
	Msgs []sdk.Msg
}

type GovModel struct {
	Pending  map[uint64]*Proposal
	LastID   uint64
	Passed   int
	Failed   int
	Rejected int
	// SpentFromGov: a passed proposal executed a message that pays out of the governance account
	SpentFromGov bool
	// Executed: the custom messages of the proposals that passed and executed in the block just
	// ended, each with the model's expectation taken immediately before it was applied
	Executed []GovExec
}

type GovExec struct {
	Proposal uint64
	Msg      sdk.Msg
	Exp      Expectation
}

// ---------------------------------------------------------------------------------------------

// GroupModel: x/group policies created so far (their accounts sign through proposals).
type GroupModel struct {
	N     uint64
	Admin map[uint64]string
	Left  map[uint64]bool // groups a member has left (the generator's groups have one member)
	// Extreme: groups whose members' weights are many thousand orders of magnitude apart
	Extreme map[uint64]bool
	Props   uint64 // proposals submitted so far
}

type Models struct {
	Grp *GroupModel
	Ent *EntModel
	Wrk *RegModel
	Bcn *RegModel
	Str *StreamModel
	Gov *GovModel
	// expectations computed before the tx
	govAddr string
	// per-block change notes for monitors
	ParamChanged map[string]int // module -> block index of last successful update
	LastUpdate   map[string]sdk.Msg
	RejectedUpd  []sdk.Msg       // UpdateParams messages that were executed by gov and failed / proposal failed
	Settles      []SettleRec     // releases/refunds the model computed for the last applied transaction
	Grants       map[string]bool // authz generic grants: granter|grantee|msg type url
}

// SettleRec is what the model says one stream operation paid out.
type SettleRec struct {
	Key      string
	Kind     string
	Released *big.Int
	Recv     *big.Int
	Fee      *big.Int
	Refund   *big.Int
	Deposit  *big.Int // amount moved from the sender into escrow
	Denom    string
}

func ratOfDec(s string) *big.Rat {
	r, ok := new(big.Rat).SetString(s)
	if !ok {
		return new(big.Rat)
	}
	return r
}

func NewModels(w *World) *Models {
	k := &w.T.Knobs
	m := &Models{govAddr: ModuleAddr(govtypes.ModuleName).String(), ParamChanged: map[string]int{}, LastUpdate: map[string]sdk.Msg{}, Grants: map[string]bool{}}
	m.Ent = &EntModel{Denom: k.Ent.Denom, MinAccepts: k.Ent.MinAccepts, Limit: k.Ent.Limit, Whitelist: map[string]bool{}, Orders: map[uint64]*Order{}, NextID: k.StartPO, Completed: map[string]*big.Int{}}
	m.Ent.setSigners(k.signersString(w.Actors))
	if g := k.GenesisOrder; g != nil {
		o := &Order{Id: k.StartPO, Purchaser: AddrOf(w.Actors, g.Purchaser).String(), Amount: mustInt(g.Amount).BigInt(), Denom: k.Ent.Denom, Status: g.Status, RaiseTime: uint64(GenesisTS) - 10}
		if g.NoRaiseTime {
			o.RaiseTime = 0
		}
		if g.Status == 2 {
			o.Decisions = []Decision{{w.Actors[k.Ent.Signers[0]].Bech(), 2, uint64(GenesisTS) - 5}}
			o.CompletionTime = 0
		}
		m.Ent.Orders[k.StartPO] = o
		m.Ent.NextID = k.StartPO + 1
	}
	if k.WhitelistGov {
		m.Ent.Whitelist[ModuleAddr(govtypes.ModuleName).String()] = true
	}
	for _, wl := range k.Whitelist {
		m.Ent.Whitelist[w.Actors[wl].Bech()] = true
	}
	m.Wrk = &RegModel{Kind: "wrk", P: k.Wrk, NextID: k.StartWrk, Regs: map[uint64]*Reg{}}
	m.Bcn = &RegModel{Kind: "bcn", P: k.Beacon, NextID: k.StartBeacon, Regs: map[uint64]*Reg{}}
	m.Str = &StreamModel{ValFee: ratOfDec(k.ValFee), Streams: map[string]*Stream{}}
	m.Gov = &GovModel{Pending: map[uint64]*Proposal{}}
	m.Grp = &GroupModel{Admin: map[uint64]string{}}
	if k.GenesisRegUpper && k.ManyRegs > 0 {
		// registration 1 of each kind belongs to actor 3 (written in upper case in the document)
		owner := w.Actors[3].Bech()
		m.Wrk.Regs[1] = &Reg{Id: 1, Owner: owner, Meta: []string{"gen-1", "from genesis", "G1F", "geth"}, RegTime: uint64(GenesisTS) - 100, Limit: new(big.Int).SetUint64(k.Wrk.DefLimit)}
		m.Bcn.Regs[1] = &Reg{Id: 1, Owner: owner, Meta: []string{"gen-1", "from genesis"}, RegTime: uint64(GenesisTS) - 100, Limit: new(big.Int).SetUint64(k.Beacon.DefLimit)}
	}
	return m
}

func (m *Models) Clone() *Models {
	c := *m
	c.Ent, c.Wrk, c.Bcn, c.Str = m.Ent.clone(), m.Wrk.clone(), m.Bcn.clone(), m.Str.clone()
	if m.Grp != nil {
		g := &GroupModel{N: m.Grp.N, Props: m.Grp.Props, Admin: map[uint64]string{}, Left: map[uint64]bool{}, Extreme: map[uint64]bool{}}
		for k, v := range m.Grp.Extreme {
			g.Extreme[k] = v
		}
		for k, v := range m.Grp.Admin {
			g.Admin[k] = v
		}
		for k, v := range m.Grp.Left {
			g.Left[k] = v
		}
		c.Grp = g
	}
	c.ParamChanged = map[string]int{}
	for k, v := range m.ParamChanged {
		c.ParamChanged[k] = v
	}
	c.LastUpdate = map[string]sdk.Msg{}
	for k, v := range m.LastUpdate {
		c.LastUpdate[k] = v
	}
	c.Grants = map[string]bool{}
	for k, v := range m.Grants {
		c.Grants[k] = v
	}
	c.Settles = nil
	c.RejectedUpd = nil
	return &c
}

// Expectation for one message, evaluated against the model *before* it runs.
type Expectation struct {
	MustFail bool
	Rule     string // "<msg type>/<reason>"; empty if the statements do not determine the outcome
	Entitled bool   // the signer is the party the operation belongs to (per the statements)
	Known    bool   // the message type is one of the custom ones
}

// flatten returns the executable leaf messages of a transaction in execution order, unwrapping
// authz MsgExec. wrapped reports whether a leaf was nested.
type Leaf struct {
	Msg     sdk.Msg
	Depth   int
	Grantee string // executing grantee for nested messages ("" if top-level)
}

func Flatten(msgs []sdk.Msg) []Leaf {
	var out []Leaf
	var rec func(ms []sdk.Msg, depth int, grantee string)
	rec = func(ms []sdk.Msg, depth int, grantee string) {
		for _, m := range ms {
			if ex, ok := m.(*authz.MsgExec); ok {
				inner, err := ex.GetMessages()
				if err == nil && depth < 64 {
					rec(inner, depth+1, ex.Grantee)
					continue
				}
			}
			out = append(out, Leaf{m, depth, grantee})
		}
	}
	rec(msgs, 0, "")
	return out
}

func msgKind(m sdk.Msg) string {
	switch m.(type) {
	case *enttypes.MsgUndPurchaseOrder:
		return "ent.raise"
	case *enttypes.MsgProcessUndPurchaseOrder:
		return "ent.decide"
	case *enttypes.MsgWhitelistAddress:
		return "ent.whitelist"
	case *enttypes.MsgUpdateParams:
		return "ent.params"
	case *wrkchaintypes.MsgRegisterWrkChain:
		return "wrk.register"
	case *wrkchaintypes.MsgRecordWrkChainBlock:
		return "wrk.record"
	case *wrkchaintypes.MsgPurchaseWrkChainStateStorage:
		return "wrk.purchase"
	case *wrkchaintypes.MsgUpdateParams:
		return "wrk.params"
	case *beacontypes.MsgRegisterBeacon:
		return "bcn.register"
	case *beacontypes.MsgRecordBeaconTimestamp:
		return "bcn.record"
	case *beacontypes.MsgPurchaseBeaconStateStorage:
		return "bcn.purchase"
	case *beacontypes.MsgUpdateParams:
		return "bcn.params"
	case *streamtypes.MsgCreateStream:
		return "str.create"
	case *streamtypes.MsgClaimStream:
		return "str.claim"
	case *streamtypes.MsgTopUpDeposit:
		return "str.topup"
	case *streamtypes.MsgUpdateFlowRate:
		return "str.update"
	case *streamtypes.MsgCancelStream:
		return "str.cancel"
	case *streamtypes.MsgUpdateParams:
		return "str.params"
	}
	return sdk.MsgTypeURL(m)
}

func isCustom(kind string) bool {
	return strings.HasPrefix(kind, "ent.") || strings.HasPrefix(kind, "wrk.") || strings.HasPrefix(kind, "bcn.") || strings.HasPrefix(kind, "str.")
}

func bigOf(i sdk.Int) *big.Int {
	if i.IsNil() {
		return new(big.Int)
	}
	return i.BigInt()
}

// Expect evaluates the statements for one leaf message against the current model state.
func (m *Models) Expect(msg sdk.Msg) Expectation {
	e := Expectation{Known: true, Entitled: true}
	fail := func(rule string, entitled bool) Expectation {
		return Expectation{MustFail: true, Rule: rule, Entitled: entitled, Known: true}
	}
	switch x := msg.(type) {
	case *enttypes.MsgUndPurchaseOrder:
		if !m.Ent.Whitelist[x.Purchaser] {
			return fail("ent.raise/not-whitelisted", false)
		}
	case *enttypes.MsgProcessUndPurchaseOrder:
		if !m.Ent.isSigner(x.Signer) {
			return fail("ent.decide/not-authorised", false)
		}
		o := m.Ent.Orders[x.PurchaseOrderId]
		if o == nil {
			return fail("ent.decide/unknown-order", true)
		}
		if o.Status != 1 {
			return fail("ent.decide/not-raised", true)
		}
		for _, d := range o.Decisions {
			if d.Signer == x.Signer {
				return fail("ent.decide/already-decided", true)
			}
		}
	case *enttypes.MsgWhitelistAddress:
		if !m.Ent.isSigner(x.Signer) {
			return fail("ent.whitelist/not-authorised", false)
		}
	case *enttypes.MsgUpdateParams:
		if x.Authority != m.govAddr {
			return fail("ent.params/not-gov", false)
		}
	case *wrkchaintypes.MsgUpdateParams:
		if x.Authority != m.govAddr {
			return fail("wrk.params/not-gov", false)
		}
	case *beacontypes.MsgUpdateParams:
		if x.Authority != m.govAddr {
			return fail("bcn.params/not-gov", false)
		}
	case *streamtypes.MsgUpdateParams:
		if x.Authority != m.govAddr {
			return fail("str.params/not-gov", false)
		}
	case *wrkchaintypes.MsgRecordWrkChainBlock:
		g := m.Wrk.Regs[x.WrkchainId]
		if g == nil {
			return fail("wrk.record/unknown-id", false)
		}
		if g.Owner != x.Owner {
			return fail("wrk.record/not-owner", false)
		}
		if x.Height <= g.LastKey {
			return fail("wrk.record/height-not-above-last", true)
		}
	case *wrkchaintypes.MsgPurchaseWrkChainStateStorage:
		g := m.Wrk.Regs[x.WrkchainId]
		if g == nil {
			return fail("wrk.purchase/unknown-id", false)
		}
		if g.Owner != x.Owner {
			return fail("wrk.purchase/not-owner", false)
		}
		after := new(big.Int).Add(g.Limit, new(big.Int).SetUint64(x.Number))
		if after.Cmp(new(big.Int).SetUint64(m.Wrk.P.MaxLimit)) > 0 {
			return fail("wrk.purchase/above-max", true)
		}
	case *beacontypes.MsgRecordBeaconTimestamp:
		g := m.Bcn.Regs[x.BeaconId]
		if g == nil {
			return fail("bcn.record/unknown-id", false)
		}
		if g.Owner != x.Owner {
			return fail("bcn.record/not-owner", false)
		}
	case *beacontypes.MsgPurchaseBeaconStateStorage:
		g := m.Bcn.Regs[x.BeaconId]
		if g == nil {
			return fail("bcn.purchase/unknown-id", false)
		}
		if g.Owner != x.Owner {
			return fail("bcn.purchase/not-owner", false)
		}
		after := new(big.Int).Add(g.Limit, new(big.Int).SetUint64(x.Number))
		if after.Cmp(new(big.Int).SetUint64(m.Bcn.P.MaxLimit)) > 0 {
			return fail("bcn.purchase/above-max", true)
		}
	case *streamtypes.MsgCreateStream:
		if m.Str.Streams[skey(x.Sender, x.Receiver)] != nil {
			return fail("str.create/exists", true)
		}
	case *streamtypes.MsgClaimStream:
		if m.Str.Streams[skey(x.Sender, x.Receiver)] == nil {
			return fail("str.claim/no-such-stream", false)
		}
	case *streamtypes.MsgTopUpDeposit:
		if m.Str.Streams[skey(x.Sender, x.Receiver)] == nil {
			return fail("str.topup/no-such-stream", false)
		}
	case *streamtypes.MsgUpdateFlowRate:
		if m.Str.Streams[skey(x.Sender, x.Receiver)] == nil {
			return fail("str.update/no-such-stream", false)
		}
	case *streamtypes.MsgCancelStream:
		if m.Str.Streams[skey(x.Sender, x.Receiver)] == nil {
			return fail("str.cancel/no-such-stream", false)
		}
	case *wrkchaintypes.MsgRegisterWrkChain, *beacontypes.MsgRegisterBeacon:
	default:
		e.Known = false
	}
	return e
}

// Apply takes the effect of one successfully executed leaf message. now is the block time.
func (m *Models) Apply(msg sdk.Msg, now time.Time, blk int) {
	unix := uint64(now.Unix())
	switch x := msg.(type) {
	case *authz.MsgGrant:
		if x.Grant.Authorization != nil {
			var a authz.Authorization
			if ga, ok := x.Grant.Authorization.GetCachedValue().(authz.Authorization); ok {
				a = ga
			}
			if a != nil {
				m.Grants[x.Granter+"|"+x.Grantee+"|"+a.MsgTypeURL()] = true
			}
		}
	case *enttypes.MsgUndPurchaseOrder:
		id := m.Ent.NextID
		m.Ent.NextID++
		m.Ent.Orders[id] = &Order{Id: id, Purchaser: x.Purchaser, Amount: bigOf(x.Amount.Amount), Denom: x.Amount.Denom, Status: 1, RaiseTime: unix}
	case *enttypes.MsgProcessUndPurchaseOrder:
		if o := m.Ent.Orders[x.PurchaseOrderId]; o != nil {
			o.Decisions = append(o.Decisions, Decision{x.Signer, int(x.Decision), unix})
		}
	case *enttypes.MsgWhitelistAddress:
		if x.Action == enttypes.WhitelistActionAdd {
			m.Ent.Whitelist[x.Address] = true
		} else if x.Action == enttypes.WhitelistActionRemove {
			delete(m.Ent.Whitelist, x.Address)
		}
	case *enttypes.MsgUpdateParams:
		m.Ent.setSigners(x.Params.EntSigners)
		if x.Params.Denom != m.Ent.Denom {
			m.Ent.DenomChanged = true
		}
		m.Ent.Denom, m.Ent.MinAccepts, m.Ent.Limit = x.Params.Denom, x.Params.MinAccepts, x.Params.DecisionTimeLimit
		m.ParamChanged["ent"] = blk
		m.LastUpdate["ent"] = x
	case *wrkchaintypes.MsgUpdateParams:
		p := x.Params
		m.Wrk.P = RegParams{p.FeeRegister, p.FeeRecord, p.FeePurchaseStorage, p.Denom, p.DefaultStorageLimit, p.MaxStorageLimit}
		m.ParamChanged["wrk"] = blk
		m.LastUpdate["wrk"] = x
	case *beacontypes.MsgUpdateParams:
		p := x.Params
		m.Bcn.P = RegParams{p.FeeRegister, p.FeeRecord, p.FeePurchaseStorage, p.Denom, p.DefaultStorageLimit, p.MaxStorageLimit}
		m.ParamChanged["bcn"] = blk
		m.LastUpdate["bcn"] = x
	case *streamtypes.MsgUpdateParams:
		m.Str.ValFee = ratOfDec(x.Params.ValidatorFee.String())
		m.ParamChanged["str"] = blk
		m.LastUpdate["str"] = x
	case *wrkchaintypes.MsgRegisterWrkChain:
		id := m.Wrk.NextID
		m.Wrk.NextID++
		m.Wrk.Regs[id] = &Reg{Id: id, Owner: x.Owner, Meta: []string{x.Moniker, x.Name, x.GenesisHash, x.BaseType}, RegTime: unix, Limit: new(big.Int).SetUint64(m.Wrk.P.DefLimit)}
	case *wrkchaintypes.MsgRecordWrkChainBlock:
		if g := m.Wrk.Regs[x.WrkchainId]; g != nil {
			g.addRecord(Rec{Key: x.Height, Fields: []string{x.BlockHash, x.ParentHash, x.Hash1, x.Hash2, x.Hash3}, Time: unix})
		}
	case *wrkchaintypes.MsgPurchaseWrkChainStateStorage:
		if g := m.Wrk.Regs[x.WrkchainId]; g != nil {
			g.Limit.Add(g.Limit, new(big.Int).SetUint64(x.Number))
		}
	case *beacontypes.MsgRegisterBeacon:
		id := m.Bcn.NextID
		m.Bcn.NextID++
		m.Bcn.Regs[id] = &Reg{Id: id, Owner: x.Owner, Meta: []string{x.Moniker, x.Name}, RegTime: unix, Limit: new(big.Int).SetUint64(m.Bcn.P.DefLimit)}
	case *beacontypes.MsgRecordBeaconTimestamp:
		if g := m.Bcn.Regs[x.BeaconId]; g != nil {
			g.addRecord(Rec{Key: g.Total + 1, Fields: []string{x.Hash}, Time: x.SubmitTime})
		}
	case *beacontypes.MsgPurchaseBeaconStateStorage:
		if g := m.Bcn.Regs[x.BeaconId]; g != nil {
			g.Limit.Add(g.Limit, new(big.Int).SetUint64(x.Number))
		}
	case *streamtypes.MsgCreateStream:
		dep := bigOf(x.Deposit.Amount)
		rate := big.NewInt(x.FlowRate)
		st := &Stream{Sender: x.Sender, Receiver: x.Receiver, Denom: x.Deposit.Denom, Remaining: new(big.Int).Set(dep), Rate: rate, Last: now,
			Deposited: new(big.Int).Set(dep), Paid: new(big.Int), Fees: new(big.Int), Refunded: new(big.Int)}
		st.Zero, st.ZeroOverflow = addSeconds(now, floorDiv(dep, rate))
		m.Str.Streams[skey(x.Sender, x.Receiver)] = st
		m.Settles = append(m.Settles, SettleRec{skey(x.Sender, x.Receiver), "create", new(big.Int), new(big.Int), new(big.Int), new(big.Int), new(big.Int).Set(dep), st.Denom})
	case *streamtypes.MsgClaimStream:
		if st := m.Str.Streams[skey(x.Sender, x.Receiver)]; st != nil {
			rel, recv, fee := m.settle(st, now)
			m.Settles = append(m.Settles, SettleRec{skey(x.Sender, x.Receiver), "claim", rel, recv, fee, new(big.Int), new(big.Int), st.Denom})
		}
	case *streamtypes.MsgTopUpDeposit:
		if st := m.Str.Streams[skey(x.Sender, x.Receiver)]; st != nil {
			amt := bigOf(x.Deposit.Amount)
			ext := floorDiv(amt, st.Rate)
			rel, recv, fee := new(big.Int), new(big.Int), new(big.Int)
			if !st.ZeroOverflow && !now.Before(st.Zero) {
				// expired: settle whatever is left, funding restarts now
				rel, recv, fee = m.settle(st, now)
				st.Last = now
				st.Zero, st.ZeroOverflow = addSeconds(now, ext)
			} else if !st.ZeroOverflow {
				st.Zero, st.ZeroOverflow = addSeconds(st.Zero, ext)
			}
			st.Remaining.Add(st.Remaining, amt)
			st.Deposited.Add(st.Deposited, amt)
			m.Settles = append(m.Settles, SettleRec{skey(x.Sender, x.Receiver), "topup", rel, recv, fee, new(big.Int), new(big.Int).Set(amt), st.Denom})
		}
	case *streamtypes.MsgUpdateFlowRate:
		if st := m.Str.Streams[skey(x.Sender, x.Receiver)]; st != nil {
			rel, recv, fee := m.settle(st, now)
			m.Settles = append(m.Settles, SettleRec{skey(x.Sender, x.Receiver), "update", rel, recv, fee, new(big.Int), new(big.Int), st.Denom})
			st.Rate = big.NewInt(x.FlowRate)
			st.Zero, st.ZeroOverflow = addSeconds(now, floorDiv(st.Remaining, st.Rate))
		}
	case *streamtypes.MsgCancelStream:
		k := skey(x.Sender, x.Receiver)
		if st := m.Str.Streams[k]; st != nil {
			rel, recv, fee := m.settle(st, now)
			m.Settles = append(m.Settles, SettleRec{k, "cancel", rel, recv, fee, new(big.Int).Set(st.Remaining), new(big.Int), st.Denom})
			st.Refunded.Add(st.Refunded, st.Remaining)
			st.Remaining = new(big.Int)
			delete(m.Str.Streams, k)
		}
	}
}

// settle performs a release on the model and books payment and fee.
func (m *Models) settle(st *Stream, now time.Time) (*big.Int, *big.Int, *big.Int) {
	rel := st.release(now)
	recv, fee := m.Str.split(rel)
	st.Paid.Add(st.Paid, recv)
	st.Fees.Add(st.Fees, fee)
	return rel, recv, fee
}

// ---------------------------------------------------------------------------------------------
// hooks called by the executor

func (m *Models) afterBegin(w *World, _ abci.ResponseBeginBlock) {
	m.Ent.beginBlock(uint64(w.Now.Unix()), w.BlockIdx)
}

func (m *Models) beforeTx(w *World, tx *TxCtx) {
	// sequential expectation over a clone
	leaves := Flatten(tx.Msgs)
	c := m.Clone()
	exps := make([]Expectation, 0, len(leaves))
	for _, lf := range leaves {
		e := c.Expect(lf.Msg)
		exps = append(exps, e)
		if e.MustFail {
			break
		}
		// govern proposals are not executed here; everything else takes effect in order
		c.Apply(lf.Msg, w.Now, w.BlockIdx)
	}
	tx.Stash["leaves"] = leaves
	tx.Stash["expect"] = exps
}

func proposalIDFromEvents(evs []abci.Event) (uint64, bool) {
	for _, ev := range evs {
		if ev.Type != govtypes.EventTypeSubmitProposal {
			continue
		}
		for _, a := range ev.Attributes {
			if a.Key == govtypes.AttributeKeyProposalID {
				id, err := strconv.ParseUint(a.Value, 10, 64)
				if err == nil {
					return id, true
				}
			}
		}
	}
	return 0, false
}

func (m *Models) afterTx(w *World, tx *TxCtx) {
	leaves, _ := tx.Stash["leaves"].([]Leaf)
	for _, lf := range leaves {
		k := msgKind(lf.Msg)
		if tx.Resp.Code == 0 {
			w.St.OpOutcome[k+"/ok"]++
		} else {
			w.St.OpOutcome[k+"/fail"]++
		}
	}
	m.Settles = nil
	if tx.Resp.Code != 0 {
		return
	}
	for _, lf := range leaves {
		if sp, ok := lf.Msg.(*govv1.MsgSubmitProposal); ok {
			if id, ok := proposalIDFromEvents(tx.Resp.Events); ok {
				inner, err := sp.GetMsgs()
				if err == nil {
					m.Gov.Pending[id] = &Proposal{Id: id, Msgs: inner}
					m.Gov.LastID = id
				}
			}
			continue
		}
		switch gm := lf.Msg.(type) {
		case *group.MsgCreateGroupWithPolicy:
			m.Grp.N++
			m.Grp.Admin[m.Grp.N] = gm.Admin
			if len(gm.Members) > 1 {
				if m.Grp.Extreme == nil {
					m.Grp.Extreme = map[uint64]bool{}
				}
				m.Grp.Extreme[m.Grp.N] = true
			}
			if got := eventAttr(tx.Resp.Events, "cosmos.group.v1.EventCreateGroupPolicy", "address"); got != PolicyAddr(m.Grp.N).String() {
				w.Ev("GROUP-POLICY-ADDRESS-MISMATCH %d %s", m.Grp.N, got)
				w.Probe("harness.group-policy-address-mismatch")
			}
			continue
		case *group.MsgLeaveGroup:
			if m.Grp.Left == nil {
				m.Grp.Left = map[uint64]bool{}
			}
			m.Grp.Left[gm.GroupId] = true
			continue
		case *group.MsgSubmitProposal:
			m.Grp.Props++
			// executed inside this transaction only if the proposal passed and all its messages
			// succeeded (EXEC_TRY); a failed execution leaves the transaction successful
			if eventAttr(tx.Resp.Events, "cosmos.group.v1.EventExec", "result") == "PROPOSAL_EXECUTOR_RESULT_SUCCESS" {
				if inner, err := gm.GetMsgs(); err == nil {
					for _, il := range Flatten(inner) {
						m.Apply(il.Msg, w.Now, w.BlockIdx)
						w.St.OpOutcome[msgKind(il.Msg)+"/ok-via-group"]++
					}
				}
				w.Probe("group.proposal-executed")
			} else {
				w.Probe("group.proposal-not-executed")
			}
			continue
		}
		m.Apply(lf.Msg, w.Now, w.BlockIdx)
	}
}

// eventAttr returns the (unquoted) value of the first attribute key of the first event of a type.
func eventAttr(evs []abci.Event, typ, key string) string {
	for _, e := range evs {
		if e.Type != typ {
			continue
		}
		for _, a := range e.Attributes {
			if a.Key == key {
				return strings.Trim(a.Value, "\"")
			}
		}
	}
	return ""
}

// FlattenDeep is Flatten that also looks inside x/group proposals submitted with EXEC_TRY (their
// messages run inside the submitting transaction when the proposal passes at once).
func FlattenDeep(msgs []sdk.Msg) (leaves []Leaf, viaGroup int) {
	for _, lf := range Flatten(msgs) {
		if sp, ok := lf.Msg.(*group.MsgSubmitProposal); ok && sp.Exec == group.Exec_EXEC_TRY {
			if inner, err := sp.GetMsgs(); err == nil {
				in := Flatten(inner)
				viaGroup += len(in)
				leaves = append(leaves, in...)
				continue
			}
		}
		leaves = append(leaves, lf)
	}
	return leaves, viaGroup
}

func (m *Models) afterEnd(w *World, _ abci.ResponseEndBlock) {
	m.Gov.Executed = nil
	if len(m.Gov.Pending) == 0 {
		return
	}
	ctx := w.DCtx()
	ids := make([]uint64, 0, len(m.Gov.Pending))
	for id := range m.Gov.Pending {
		ids = append(ids, id)
	}
	sort.Slice(ids, func(i, j int) bool { return ids[i] < ids[j] })
	for _, id := range ids {
		p, found := w.Ref.App.GovKeeper.GetProposal(ctx, id)
		if !found {
			// deposit period expired and the proposal was deleted
			delete(m.Gov.Pending, id)
			m.Gov.Rejected++
			continue
		}
		switch p.Status {
		case govv1.StatusPassed:
			for _, msg := range m.Gov.Pending[id].Msgs {
				for _, lf := range Flatten([]sdk.Msg{msg}) {
					if isCustom(msgKind(lf.Msg)) {
						m.Gov.Executed = append(m.Gov.Executed, GovExec{id, lf.Msg, m.Expect(lf.Msg)})
						w.Probe("gov.executed." + msgKind(lf.Msg))
					}
					m.Apply(lf.Msg, w.Now, w.BlockIdx)
				}
			}
			m.Gov.Passed++
			if spendsFromGov(m.Gov.Pending[id].Msgs) {
				m.Gov.SpentFromGov = true
			}
			w.Ev("GOV passed %d", id)
			delete(m.Gov.Pending, id)
		case govv1.StatusFailed:
			m.RejectedUpd = append(m.RejectedUpd, m.Gov.Pending[id].Msgs...)
			m.Gov.Failed++
			w.Ev("GOV failed %d", id)
			delete(m.Gov.Pending, id)
		case govv1.StatusRejected:
			m.Gov.Rejected++
			w.Ev("GOV rejected %d", id)
			delete(m.Gov.Pending, id)
		}
	}
}

func (m *Models) afterBlock(w *World) {}

func (o *Order) String() string {
	return fmt.Sprintf("{id=%d %s %s%s st=%d raise=%d comp=%d dec=%v}", o.Id, o.Purchaser, o.Amount, o.Denom, o.Status, o.RaiseTime, o.CompletionTime, o.Decisions)
}

// canonAddr returns the canonical (lower-case) spelling of a bech32 account address; anything that
// does not decode is returned as it is. bech32 has a second, all-upper-case spelling of every
// address, and the statements speak about accounts, not spellings.
func canonAddr(s string) string {
	if a, err := sdk.AccAddressFromBech32(s); err == nil {
		return a.String()
	}
	return s
}

// canonMsgs rewrites the party fields of the (decoded, never re-encoded) custom messages of a
// transaction to their canonical spelling, so that models and oracles reason about accounts.
func canonMsgs(msgs []sdk.Msg) {
	for _, lf := range Flatten(msgs) {
		switch x := lf.Msg.(type) {
		case *enttypes.MsgUndPurchaseOrder:
			x.Purchaser = canonAddr(x.Purchaser)
		case *enttypes.MsgProcessUndPurchaseOrder:
			x.Signer = canonAddr(x.Signer)
		case *enttypes.MsgWhitelistAddress:
			x.Signer, x.Address = canonAddr(x.Signer), canonAddr(x.Address)
		case *wrkchaintypes.MsgRegisterWrkChain:
			x.Owner = canonAddr(x.Owner)
		case *wrkchaintypes.MsgRecordWrkChainBlock:
			x.Owner = canonAddr(x.Owner)
		case *wrkchaintypes.MsgPurchaseWrkChainStateStorage:
			x.Owner = canonAddr(x.Owner)
		case *beacontypes.MsgRegisterBeacon:
			x.Owner = canonAddr(x.Owner)
		case *beacontypes.MsgRecordBeaconTimestamp:
			x.Owner = canonAddr(x.Owner)
		case *beacontypes.MsgPurchaseBeaconStateStorage:
			x.Owner = canonAddr(x.Owner)
		case *streamtypes.MsgCreateStream:
			x.Sender, x.Receiver = canonAddr(x.Sender), canonAddr(x.Receiver)
		case *streamtypes.MsgClaimStream:
			x.Sender, x.Receiver = canonAddr(x.Sender), canonAddr(x.Receiver)
		case *streamtypes.MsgTopUpDeposit:
			x.Sender, x.Receiver = canonAddr(x.Sender), canonAddr(x.Receiver)
		case *streamtypes.MsgUpdateFlowRate:
			x.Sender, x.Receiver = canonAddr(x.Sender), canonAddr(x.Receiver)
		case *streamtypes.MsgCancelStream:
			x.Sender, x.Receiver = canonAddr(x.Sender), canonAddr(x.Receiver)
		}
	}
}
