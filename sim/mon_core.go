package simnet

// mon_core.go — observation helpers shared by the monitors: store digests, balance sheets, supply,
// bank event ledger.

import (
	"crypto/sha256"
	"encoding/hex"
	"math/big"
	"sort"
	"strings"

	abci "github.com/cometbft/cometbft/abci/types"
	sdk "github.com/cosmos/cosmos-sdk/types"

	beacontypes "github.com/unification-com/mainchain/x/beacon/types"
	enttypes "github.com/unification-com/mainchain/x/enterprise/types"
	streamtypes "github.com/unification-com/mainchain/x/stream/types"
	wrkchaintypes "github.com/unification-com/mainchain/x/wrkchain/types"
)

var customStores = []string{enttypes.StoreKey, wrkchaintypes.StoreKey, beacontypes.StoreKey, streamtypes.StoreKey}

// storeDigest hashes every key/value of a store; skip(key) excludes keys.
func storeDigest(w *World, ctx sdk.Context, store string, skip func([]byte) bool) string {
	st := ctx.KVStore(w.Ref.App.GetKey(store))
	it := st.Iterator(nil, nil)
	defer it.Close()
	h := sha256.New()
	var lenbuf [4]byte
	for ; it.Valid(); it.Next() {
		k, v := it.Key(), it.Value()
		if skip != nil && skip(k) {
			continue
		}
		lenbuf[0], lenbuf[1], lenbuf[2], lenbuf[3] = byte(len(k)>>8), byte(len(k)), byte(len(v)>>8), byte(len(v))
		h.Write(lenbuf[:])
		h.Write(k)
		h.Write(v)
	}
	return hex.EncodeToString(h.Sum(nil)[:12])
}

// eFUND book-keeping keys that the ante stage legitimately moves.
func isEfundBookKey(k []byte) bool {
	if len(k) == 0 {
		return false
	}
	return k[0] == 0x02 || k[0] == 0x06 || k[0] == 0x98 || k[0] == 0x99
}

// moduleDigest: digest of the four custom stores (enterprise without the eFUND books).
func moduleDigest(w *World, ctx sdk.Context) string {
	parts := make([]string, 0, 4)
	for _, s := range customStores {
		var skip func([]byte) bool
		if s == enttypes.StoreKey {
			skip = isEfundBookKey
		}
		parts = append(parts, storeDigest(w, ctx, s, skip))
	}
	return strings.Join(parts, ".")
}

func fullModuleDigest(w *World, ctx sdk.Context) string {
	parts := make([]string, 0, 4)
	for _, s := range customStores {
		parts = append(parts, storeDigest(w, ctx, s, nil))
	}
	return strings.Join(parts, ".")
}

// sheet is a balance sheet: address -> denom -> amount.
type sheet map[string]map[string]*big.Int

func balanceSheet(w *World, ctx sdk.Context) sheet {
	s := sheet{}
	w.Ref.App.BankKeeper.IterateAllBalances(ctx, func(a sdk.AccAddress, c sdk.Coin) bool {
		k := a.String()
		if s[k] == nil {
			s[k] = map[string]*big.Int{}
		}
		s[k][c.Denom] = c.Amount.BigInt()
		return false
	})
	return s
}

func (s sheet) get(addr, denom string) *big.Int {
	if m := s[addr]; m != nil {
		if v := m[denom]; v != nil {
			return v
		}
	}
	return new(big.Int)
}

func (s sheet) totals() map[string]*big.Int {
	t := map[string]*big.Int{}
	for _, m := range s {
		for d, v := range m {
			if t[d] == nil {
				t[d] = new(big.Int)
			}
			t[d].Add(t[d], v)
		}
	}
	return t
}

// delta returns after-before for (addr, denom) pairs that changed.
func (s sheet) delta(after sheet) map[string]*big.Int {
	out := map[string]*big.Int{}
	seen := map[string]bool{}
	for a, m := range s {
		for d := range m {
			seen[a+"|"+d] = true
		}
	}
	for a, m := range after {
		for d := range m {
			seen[a+"|"+d] = true
		}
	}
	for k := range seen {
		i := strings.LastIndex(k, "|")
		a, d := k[:i], k[i+1:]
		diff := new(big.Int).Sub(after.get(a, d), s.get(a, d))
		if diff.Sign() != 0 {
			out[k] = diff
		}
	}
	return out
}

func supplyMap(w *World, ctx sdk.Context) map[string]*big.Int {
	m := map[string]*big.Int{}
	w.Ref.App.BankKeeper.IterateTotalSupply(ctx, func(c sdk.Coin) bool {
		m[c.Denom] = c.Amount.BigInt()
		return false
	})
	return m
}

type bankEvent struct {
	Kind   string // coinbase | burn
	Who    string
	Amount sdk.Coins
}

func bankEvents(evs []abci.Event) []bankEvent {
	var out []bankEvent
	for _, ev := range evs {
		if ev.Type != "coinbase" && ev.Type != "burn" {
			continue
		}
		be := bankEvent{Kind: ev.Type}
		for _, a := range ev.Attributes {
			switch a.Key {
			case "minter", "burner":
				be.Who = a.Value
			case "amount":
				c, err := sdk.ParseCoinsNormalized(a.Value)
				if err == nil {
					be.Amount = c
				}
			}
		}
		out = append(out, be)
	}
	return out
}

func sortedDenoms(m map[string]*big.Int) []string {
	ks := make([]string, 0, len(m))
	for k := range m {
		ks = append(ks, k)
	}
	sort.Strings(ks)
	return ks
}

func bigStr(b *big.Int) string {
	if b == nil {
		return "0"
	}
	return b.String()
}

// hasRegistryMsg reports whether the top-level messages contain a WRKChain or BEACON operation.
func hasRegistryMsg(msgs []sdk.Msg) bool {
	for _, m := range msgs {
		k := msgKind(m)
		if (strings.HasPrefix(k, "wrk.") || strings.HasPrefix(k, "bcn.")) && !strings.HasSuffix(k, ".params") {
			return true
		}
	}
	return false
}

func hasRegistryLeaf(msgs []sdk.Msg) bool {
	for _, lf := range Flatten(msgs) {
		k := msgKind(lf.Msg)
		if (strings.HasPrefix(k, "wrk.") || strings.HasPrefix(k, "bcn.")) && !strings.HasSuffix(k, ".params") {
			return true
		}
	}
	return false
}

// govExecutedMustFail: a proposal that passed and executed ran a message the statements say must
// be rejected (judged against the model immediately before the message was applied).
func govExecutedMustFail(w *World, prop string, rules map[string]bool) {
	for _, ge := range w.M.Gov.Executed {
		if ge.Exp.MustFail && rules[ge.Exp.Rule] {
			w.Violate(prop, prop+"/accepted/"+ge.Exp.Rule+"/via-governance", "proposal %d passed and executed %s although %s", ge.Proposal, msgKind(ge.Msg), ge.Exp.Rule)
		}
	}
}
