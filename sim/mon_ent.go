package simnet

// mon_ent.go — oracles for the enterprise-side properties C02, C03, C04, C05, C17.

import (
	"encoding/json"
	"fmt"
	"math/big"
	"sort"
	"strings"

	abci "github.com/cometbft/cometbft/abci/types"
	sdk "github.com/cosmos/cosmos-sdk/types"
	"github.com/cosmos/cosmos-sdk/types/query"
	authtypes "github.com/cosmos/cosmos-sdk/x/auth/types"
	vestexported "github.com/cosmos/cosmos-sdk/x/auth/vesting/exported"
	banktypes "github.com/cosmos/cosmos-sdk/x/bank/types"
	govtypes "github.com/cosmos/cosmos-sdk/x/gov/types"
	stakingtypes "github.com/cosmos/cosmos-sdk/x/staking/types"

	enttypes "github.com/unification-com/mainchain/x/enterprise/types"
)

// ---------------------------------------------------------------------------------------------
// C02 — native supply changes only through approved purchase orders

type monC02 struct {
	BaseMonitor
	supply  map[string]*big.Int // supply at the last observation point
	minted  *big.Int            // minted in this block (BeginBlock)
	burned  map[string]*big.Int
	blockSt map[string]*big.Int
	// ids on the chain's accepted queue at the last block boundary
	acceptedBefore []uint64
}

func (m *monC02) Name() string { return "C02" }

func (m *monC02) Init(w *World) {
	m.supply = supplyMap(w, w.DCtx()) // after InitChain the genesis state lives in the deliver state
	m.acceptedBefore = w.Ref.App.EnterpriseKeeper.GetAllAcceptedPurchaseOrders(w.DCtx())
	// importing the genesis document creates no coins: the supply the chain starts with is the
	// supply its bank section declares
	var gs map[string]json.RawMessage
	if err := json.Unmarshal(w.AppState, &gs); err == nil {
		var bg banktypes.GenesisState
		if err := w.Ref.App.AppCodec().UnmarshalJSON(gs[banktypes.ModuleName], &bg); err == nil {
			w.Probe("c02.genesis-supply-compared")
			for _, c := range bg.Supply {
				have := m.supply[c.Denom]
				if have == nil {
					have = new(big.Int)
				}
				if have.Cmp(c.Amount.BigInt()) != 0 {
					w.Violate("C02", "C02/genesis-import-changed-supply", "genesis declares a supply of %s, the chain starts with %s%s", c, have, c.Denom)
				}
			}
		}
	}
	if w.T.Knobs.UnbackedLocked != "" {
		w.Probe("c02.unbacked-genesis-imported")
	}
}

func (m *monC02) diffSupply(w *World, ctx sdk.Context) map[string]*big.Int {
	now := supplyMap(w, ctx)
	d := map[string]*big.Int{}
	for _, k := range sortedDenoms(now) {
		prev := m.supply[k]
		if prev == nil {
			prev = new(big.Int)
		}
		if x := new(big.Int).Sub(now[k], prev); x.Sign() != 0 {
			d[k] = x
		}
	}
	for _, k := range sortedDenoms(m.supply) {
		if now[k] == nil && m.supply[k].Sign() != 0 {
			d[k] = new(big.Int).Neg(m.supply[k])
		}
	}
	m.supply = now
	return d
}

var burners = map[string]bool{}

func allowedBurner(a string) bool {
	if len(burners) == 0 {
		for _, n := range []string{govtypes.ModuleName, stakingtypes.BondedPoolName, stakingtypes.NotBondedPoolName} {
			burners[authtypes.NewModuleAddress(n).String()] = true
		}
	}
	return burners[a]
}

func (m *monC02) checkBurns(w *World, evs []abci.Event, where string) map[string]*big.Int {
	b := map[string]*big.Int{}
	for _, be := range bankEvents(evs) {
		if be.Kind != "burn" {
			continue
		}
		if !allowedBurner(be.Who) {
			w.Violate("C02", "C02/burn-by-unexpected-account", "%s: burn of %s by %s", where, be.Amount, be.Who)
		}
		for _, c := range be.Amount {
			if b[c.Denom] == nil {
				b[c.Denom] = new(big.Int)
			}
			b[c.Denom].Add(b[c.Denom], c.Amount.BigInt())
		}
	}
	return b
}

func (m *monC02) AfterBegin(w *World, resp abci.ResponseBeginBlock) {
	m.blockSt = map[string]*big.Int{}
	ent := w.M.Ent
	want := new(big.Int)
	var wantEach []string
	for _, id := range ent.Minted {
		o := ent.Orders[id]
		want.Add(want, o.Amount)
		wantEach = append(wantEach, o.Amount.String()+o.Denom)
	}
	sort.Strings(wantEach)
	entAddr := ModuleAddr(enttypes.ModuleName).String()
	var gotEach []string
	for _, be := range bankEvents(resp.Events) {
		if be.Kind != "coinbase" {
			continue
		}
		if be.Who != entAddr {
			w.Violate("C02", "C02/mint-by-other-module", "BeginBlock coinbase %s by %s", be.Amount, be.Who)
		}
		gotEach = append(gotEach, be.Amount.String())
		w.Probe("c02.mint-in-beginblock")
	}
	sort.Strings(gotEach)
	if strings.Join(gotEach, ",") != strings.Join(wantEach, ",") {
		w.Violate("C02", "C02/mint-not-matching-completed-orders", "BeginBlock minted %v, orders completing in this block %v", gotEach, wantEach)
	}
	// the chain's own books: what was minted is what the orders that left the accepted queue as
	// completed amount to (an order that ends up in any other status must not have minted)
	var chainEach []string
	dctx := w.DCtx()
	for _, id := range m.acceptedBefore {
		if po, ok := w.Ref.App.EnterpriseKeeper.GetPurchaseOrder(dctx, id); ok && po.Status == enttypes.StatusCompleted {
			chainEach = append(chainEach, po.Amount.String())
		}
	}
	sort.Strings(chainEach)
	if strings.Join(gotEach, ",") != strings.Join(chainEach, ",") {
		w.Violate("C02", "C02/mint-not-matching-orders-the-chain-shows-completed", "BeginBlock minted %v; of the orders that were accepted (%v) the chain now shows as completed %v", gotEach, m.acceptedBefore, chainEach)
	}
	burns := m.checkBurns(w, resp.Events, "BeginBlock")
	d := m.diffSupply(w, w.DCtx())
	exp := map[string]*big.Int{}
	for _, id := range ent.Minted {
		o := ent.Orders[id]
		if exp[o.Denom] == nil {
			exp[o.Denom] = new(big.Int)
		}
		exp[o.Denom].Add(exp[o.Denom], o.Amount)
	}
	for den, b := range burns {
		if exp[den] == nil {
			exp[den] = new(big.Int)
		}
		exp[den].Sub(exp[den], b)
	}
	keys := map[string]bool{}
	for k := range d {
		keys[k] = true
	}
	for k := range exp {
		keys[k] = true
	}
	for _, den := range sortedKeys(keys) {
		got, want := d[den], exp[den]
		if got == nil {
			got = new(big.Int)
		}
		if want == nil {
			want = new(big.Int)
		}
		if got.Cmp(want) != 0 {
			w.Violate("C02", "C02/supply-delta-in-beginblock", "denom %s changed by %s in BeginBlock, expected %s (completing orders %v)", den, got, want, ent.Minted)
		}
	}
	_ = want
}

func (m *monC02) AfterTx(w *World, tx *TxCtx) {
	for _, be := range bankEvents(tx.Resp.Events) {
		if be.Kind == "coinbase" {
			w.Violate("C02", "C02/mint-in-transaction", "tx %d/%d (%s) minted %s by %s", tx.Block, tx.Idx, kindsOf(tx), be.Amount, be.Who)
		}
	}
	burns := m.checkBurns(w, tx.Resp.Events, "DeliverTx")
	d := m.diffSupply(w, w.DCtx())
	for _, den := range sortedKeys(d) {
		exp := new(big.Int)
		if b := burns[den]; b != nil && tx.Resp.Code == 0 {
			exp.Sub(exp, b)
		}
		if d[den].Cmp(exp) != 0 {
			cl := "C02/supply-changed-by-transaction"
			if d[den].Sign() > 0 {
				cl = "C02/supply-increased-by-transaction"
			}
			w.Violate("C02", cl, "tx %d/%d (%s, code %d) changed supply of %s by %s (burn events %s)", tx.Block, tx.Idx, kindsOf(tx), tx.Resp.Code, den, d[den], bigStr(burns[den]))
		}
	}
}

func (m *monC02) AfterEnd(w *World, resp abci.ResponseEndBlock) {
	for _, be := range bankEvents(resp.Events) {
		if be.Kind == "coinbase" {
			w.Violate("C02", "C02/mint-in-endblock", "EndBlock minted %s by %s", be.Amount, be.Who)
		}
	}
	burns := m.checkBurns(w, resp.Events, "EndBlock")
	d := m.diffSupply(w, w.DCtx())
	for _, den := range sortedKeys(d) {
		exp := new(big.Int)
		if b := burns[den]; b != nil {
			exp.Sub(exp, b)
		}
		if d[den].Cmp(exp) != 0 {
			w.Violate("C02", "C02/supply-delta-in-endblock", "denom %s changed by %s in EndBlock, burns %s", den, d[den], bigStr(burns[den]))
		}
	}
}

func (m *monC02) AfterBlock(w *World) {
	ctx := w.CCtx()
	m.acceptedBefore = w.Ref.App.EnterpriseKeeper.GetAllAcceptedPurchaseOrders(ctx)
	tot := balanceSheet(w, ctx).totals()
	sup := supplyMap(w, ctx)
	for _, den := range sortedDenoms(sup) {
		t := tot[den]
		if t == nil {
			t = new(big.Int)
		}
		if t.Cmp(sup[den]) != 0 {
			w.Violate("C02", "C02/balances-do-not-sum-to-supply", "denom %s: sum of balances %s, recorded supply %s", den, t, sup[den])
		}
	}
	for _, den := range sortedDenoms(tot) {
		if sup[den] == nil && tot[den].Sign() != 0 {
			w.Violate("C02", "C02/balances-do-not-sum-to-supply", "denom %s: balances %s but no supply recorded", den, tot[den])
		}
	}
	// registered invariants as additional evidence
	if w.BlockIdx%4 == 0 {
		w.checkInvariants(ctx, "C02")
	}
}

func kindsOf(tx *TxCtx) string {
	var ks []string
	for _, lf := range Flatten(tx.Msgs) {
		ks = append(ks, msgKind(lf.Msg))
	}
	return strings.Join(ks, "+")
}

// checkInvariants evaluates the registered invariants of bank, enterprise and stream.
func (w *World) checkInvariants(ctx sdk.Context, prop string) {
	for _, r := range w.Ref.App.CrisisKeeper.Routes() {
		if r.ModuleName != banktypes.ModuleName && r.ModuleName != enttypes.ModuleName && r.ModuleName != "stream" {
			continue
		}
		if r.ModuleName == enttypes.ModuleName && w.M != nil && w.M.Ent.DenomChanged {
			// after governance changed the enterprise denomination the books hold two
			// denominations and this invariant cannot even be evaluated (known finding of C14)
			continue
		}
		var msg string
		var broken bool
		if p, _ := safely(func() { msg, broken = r.Invar(ctx) }); p != "" {
			w.Violate(prop, prop+"/invariant-panics/"+r.ModuleName+"-"+r.Route, "%s", p)
			continue
		}
		w.Probe("invariant." + r.ModuleName + "/" + r.Route)
		if broken {
			w.Violate(prop, prop+"/registered-invariant-broken/"+r.ModuleName+"-"+r.Route, "%s", trunc(msg, 300))
		}
	}
}

// ---------------------------------------------------------------------------------------------
// C03 — purchase orders: quorum, exactly-once minting, terminal states

type monC03 struct {
	BaseMonitor
	terminal map[uint64]string // digest of terminal order records
	lastSt   map[uint64]int
	lockedBB map[string]*big.Int
}

func (m *monC03) Name() string { return "C03" }
func (m *monC03) Init(w *World) {
	m.terminal, m.lastSt = map[uint64]string{}, map[uint64]int{}
	// an export may be taken while orders are raised or accepted: the chain started from it has to
	// carry them on (shadowOrders)
	w.armedShadow = w.armedShadow || w.PropOverride == "C03"
}

// shadowOrders: on a chain initialised from an export of the reference chain and fed the same
// blocks, every order is in the status it has on the reference chain, the queues hold the same
// orders and purchasers have been credited the same locked eFUND.
func shadowOrders(w, wb *World) {
	ka, kb := w.Ref.App.EnterpriseKeeper, wb.Ref.App.EnterpriseKeeper
	ca, cb := w.CCtx(), wb.CCtx()
	for _, id := range w.M.Ent.orderIds() {
		a, fa := ka.GetPurchaseOrder(ca, id)
		b, fb := kb.GetPurchaseOrder(cb, id)
		if fa != fb || a.Status != b.Status || a.CompletionTime != b.CompletionTime || len(a.Decisions) != len(b.Decisions) {
			wb.Violate("C03", "C03/order-differs", "order %d: status %d completion %d decisions %d on the exporting chain, status %d completion %d decisions %d (found=%v)", id, a.Status, a.CompletionTime, len(a.Decisions), b.Status, b.CompletionTime, len(b.Decisions), fb)
			return
		}
	}
	if fmt.Sprint(ka.GetAllRaisedPurchaseOrders(ca)) != fmt.Sprint(kb.GetAllRaisedPurchaseOrders(cb)) || fmt.Sprint(ka.GetAllAcceptedPurchaseOrders(ca)) != fmt.Sprint(kb.GetAllAcceptedPurchaseOrders(cb)) {
		wb.Violate("C03", "C03/queues-differ", "raised %v accepted %v on the exporting chain, raised %v accepted %v", ka.GetAllRaisedPurchaseOrders(ca), ka.GetAllAcceptedPurchaseOrders(ca), kb.GetAllRaisedPurchaseOrders(cb), kb.GetAllAcceptedPurchaseOrders(cb))
		return
	}
	la, lb := lockedMap(w, ca), lockedMap(wb, cb)
	for _, p := range sortedKeys(la) {
		if lb[p] == nil || la[p].Cmp(lb[p]) != 0 {
			wb.Violate("C03", "C03/credited-locked-differs", "%s holds %s locked eFUND on the exporting chain, %v", p, la[p], lb[p])
			return
		}
	}
}

var c03Rules = map[string]bool{"ent.raise/not-whitelisted": true, "ent.decide/not-authorised": true, "ent.decide/unknown-order": true, "ent.decide/not-raised": true, "ent.decide/already-decided": true, "ent.whitelist/not-authorised": true}

func expectationsOf(tx *TxCtx) []Expectation {
	e, _ := tx.Stash["expect"].([]Expectation)
	return e
}

func (m *monC03) BeforeTx(w *World, tx *TxCtx) {}

func (m *monC03) AfterTx(w *World, tx *TxCtx) {
	for _, e := range expectationsOf(tx) {
		if e.MustFail && c03Rules[e.Rule] {
			w.Probe("c03.mustfail." + e.Rule)
			if tx.Resp.Code == 0 {
				w.Violate("C03", "C03/accepted/"+e.Rule, "tx %d/%d (%s) succeeded although %s", tx.Block, tx.Idx, kindsOf(tx), e.Rule)
			}
		}
	}
	if tx.Resp.Code == 0 {
		m.compare(w, w.DCtx(), "tx")
	}
}

func (m *monC03) AfterBegin(w *World, _ abci.ResponseBeginBlock) {
	ctx := w.DCtx()
	// credit exactly once: Δlocked per purchaser equals the orders the model completed now
	ent := w.M.Ent
	want := map[string]*big.Int{}
	for _, id := range ent.Minted {
		o := ent.Orders[id]
		if want[o.Purchaser] == nil {
			want[o.Purchaser] = new(big.Int)
		}
		want[o.Purchaser].Add(want[o.Purchaser], o.Amount)
		w.Probe("c03.order-completed")
	}
	cur := map[string]*big.Int{}
	for _, l := range w.Ref.App.EnterpriseKeeper.GetAllLockedUnds(ctx) {
		cur[l.Owner] = l.Amount.Amount.BigInt()
	}
	if m.lockedBB != nil {
		seen := map[string]bool{}
		for k := range cur {
			seen[k] = true
		}
		for k := range m.lockedBB {
			seen[k] = true
		}
		for k := range want {
			seen[k] = true
		}
		for _, k := range sortedKeys(seen) {
			a, b := cur[k], m.lockedBB[k]
			if a == nil {
				a = new(big.Int)
			}
			if b == nil {
				b = new(big.Int)
			}
			d := new(big.Int).Sub(a, b)
			wv := want[k]
			if wv == nil {
				wv = new(big.Int)
			}
			if d.Cmp(wv) != 0 {
				w.Violate("C03", "C03/locked-credit-not-exactly-once", "BeginBlock changed locked eFUND of %s by %s, completing orders credit %s", k, d, wv)
			}
		}
	}
	m.compare(w, ctx, "begin")
}

func (m *monC03) AfterBlock(w *World) {
	ctx := w.CCtx()
	m.lockedBB = map[string]*big.Int{}
	for _, l := range w.Ref.App.EnterpriseKeeper.GetAllLockedUnds(ctx) {
		m.lockedBB[l.Owner] = l.Amount.Amount.BigInt()
	}
}

func (m *monC03) AfterEnd(w *World, _ abci.ResponseEndBlock) {
	govExecutedMustFail(w, "C03", c03Rules)
	// parameter changes (gov) land here; compare again so that a change that rewrites orders is seen
	m.compare(w, w.DCtx(), "end")
}

func allowedTransition(from, to int) bool {
	if from == to {
		return true
	}
	switch {
	case from == 0 && to == 1, from == 1 && to == 2, from == 2 && to == 4, from == 1 && to == 3:
		return true
	}
	return false
}

// compare checks refinement: every order of the model against the chain, queues, id counter.
func (m *monC03) compare(w *World, ctx sdk.Context, where string) {
	k := w.Ref.App.EnterpriseKeeper
	ent := w.M.Ent
	dup := false
	seenS := map[string]bool{}
	for _, s := range ent.Signers {
		if seenS[s] {
			dup = true
		}
		seenS[s] = true
	}
	now := uint64(w.Now.Unix())
	var raised, accepted []uint64
	for _, id := range ent.orderIds() {
		mo := ent.Orders[id]
		po, found := k.GetPurchaseOrder(ctx, id)
		if !found {
			w.Violate("C03", "C03/order-missing", "%s: order %d of the model not found on chain", where, id)
			continue
		}
		st := int(po.Status)
		if !allowedTransition(m.lastSt[id], st) {
			w.Violate("C03", fmt.Sprintf("C03/illegal-transition/%d-to-%d", m.lastSt[id], st), "%s: order %d moved %d -> %d", where, id, m.lastSt[id], st)
		}
		m.lastSt[id] = st
		if st != mo.Status {
			// narrow don't-care: the decision time limit is hit exactly (>= vs >), or duplicate signer entries
			boundary := mo.RaiseTime <= now && now-mo.RaiseTime == ent.Limit
			if (boundary || dup) && (st == 1 || st == 2 || st == 3) && where == "begin" {
				w.Probe("c03.resync-dont-care")
				mo.Status, mo.CompletionTime, mo.Fuzzy = st, po.CompletionTime, true
				if st == 2 {
					mo.AcceptedAtBlk = w.BlockIdx
				}
			} else {
				w.Violate("C03", fmt.Sprintf("C03/status-differs/model-%d-chain-%d", mo.Status, st), "%s: order %d: model %s, chain status=%d decisions=%v raise=%d completion=%d now=%d limit=%d min=%d signers=%d", where, id, mo, st, po.Decisions, po.RaiseTime, po.CompletionTime, now, ent.Limit, ent.MinAccepts, len(ent.Signers))
				continue
			}
		}
		if canonAddr(po.Purchaser) != mo.Purchaser || po.Amount.Amount.BigInt().Cmp(mo.Amount) != 0 || po.Amount.Denom != mo.Denom || po.RaiseTime != mo.RaiseTime {
			w.Violate("C03", "C03/order-record-differs", "%s: order %d: model %s, chain %s", where, id, mo, po.String())
		}
		if (st == 2 || st == 3) && po.CompletionTime != mo.CompletionTime {
			w.Violate("C03", "C03/order-record-differs", "%s: order %d completion time %d, model %d", where, id, po.CompletionTime, mo.CompletionTime)
		}
		if len(po.Decisions) != len(mo.Decisions) {
			w.Violate("C03", "C03/decisions-differ", "%s: order %d has %d decisions, model %d", where, id, len(po.Decisions), len(mo.Decisions))
		} else {
			for i, d := range po.Decisions {
				md := mo.Decisions[i]
				if canonAddr(d.Signer) != md.Signer || int(d.Decision) != md.Decision || d.DecisionTime != md.Time {
					w.Violate("C03", "C03/decisions-differ", "%s: order %d decision %d: chain %v model %v", where, id, i, d, md)
				}
			}
		}
		// one decision per signer
		ds := map[string]bool{}
		for _, d := range po.Decisions {
			if ds[d.Signer] {
				w.Violate("C03", "C03/signer-decided-twice", "%s: order %d has two decisions by %s", where, id, d.Signer)
			}
			ds[d.Signer] = true
		}
		if st == 3 || st == 4 {
			dg := po.String()
			if old, ok := m.terminal[id]; ok && old != dg {
				w.Violate("C03", "C03/terminal-order-changed", "%s: order %d was %s, now %s", where, id, old, dg)
			}
			m.terminal[id] = dg
		}
		if mo.Status == 1 {
			raised = append(raised, id)
		}
		if mo.Status == 2 {
			accepted = append(accepted, id)
		}
	}
	// no order on chain that the model does not know
	all := k.GetAllPurchaseOrders(ctx)
	if len(all) != len(ent.Orders) {
		w.Violate("C03", "C03/order-count-differs", "%s: chain has %d orders, model %d", where, len(all), len(ent.Orders))
	}
	if fmt.Sprint(k.GetAllRaisedPurchaseOrders(ctx)) != fmt.Sprint(raised) && !(len(raised) == 0 && len(k.GetAllRaisedPurchaseOrders(ctx)) == 0) {
		w.Violate("C03", "C03/raised-queue-differs", "%s: chain %v model %v", where, k.GetAllRaisedPurchaseOrders(ctx), raised)
	}
	if fmt.Sprint(k.GetAllAcceptedPurchaseOrders(ctx)) != fmt.Sprint(accepted) && !(len(accepted) == 0 && len(k.GetAllAcceptedPurchaseOrders(ctx)) == 0) {
		w.Violate("C03", "C03/accepted-queue-differs", "%s: chain %v model %v", where, k.GetAllAcceptedPurchaseOrders(ctx), accepted)
	}
	// whitelist
	wl := k.GetAllWhitelistedAddresses(ctx)
	sort.Strings(wl)
	mw := sortedKeys(ent.Whitelist)
	if strings.Join(wl, ",") != strings.Join(mw, ",") {
		w.Violate("C03", "C03/whitelist-differs", "%s: chain %v model %v", where, wl, mw)
	}
}

// ---------------------------------------------------------------------------------------------
// C04 — locked eFUND books always balance

type monC04 struct {
	BaseMonitor
	escrowPre *big.Int
	lockedPre map[string]*big.Int
	denomPre  string
}

func (m *monC04) Name() string { return "C04" }

func lockedMap(w *World, ctx sdk.Context) map[string]*big.Int {
	out := map[string]*big.Int{}
	for _, l := range w.Ref.App.EnterpriseKeeper.GetAllLockedUnds(ctx) {
		out[l.Owner] = l.Amount.Amount.BigInt()
	}
	return out
}

func spentMap(w *World, ctx sdk.Context) map[string]*big.Int {
	out := map[string]*big.Int{}
	for _, l := range w.Ref.App.EnterpriseKeeper.GetAllSpentEFUNDs(ctx) {
		out[l.Owner] = l.Amount.Amount.BigInt()
	}
	return out
}

func escrowBalance(w *World, ctx sdk.Context, denom string) *big.Int {
	return w.Ref.App.BankKeeper.GetBalance(ctx, ModuleAddr(enttypes.ModuleName), denom).Amount.BigInt()
}

func (m *monC04) Init(w *World) {
	m.escrowPre = escrowBalance(w, w.DCtx(), w.M.Ent.Denom)
	// the books have to balance on a chain started from an export as well
	w.armedShadow = w.armedShadow || w.PropOverride == "C04"
}

func (m *monC04) AfterBegin(w *World, _ abci.ResponseBeginBlock) {
	ctx := w.DCtx()
	ent := w.M.Ent
	now := escrowBalance(w, ctx, ent.Denom)
	want := new(big.Int)
	for _, id := range ent.Minted {
		if ent.Orders[id].Denom == ent.Denom {
			want.Add(want, ent.Orders[id].Amount)
		}
	}
	d := new(big.Int).Sub(now, m.escrowPre)
	if d.Cmp(want) != 0 {
		w.Violate("C04", "C04/escrow-delta-in-beginblock", "escrow changed by %s in BeginBlock, completing orders %v sum %s", d, ent.Minted, want)
	}
	m.escrowPre = now
}

func (m *monC04) BeforeTx(w *World, tx *TxCtx) {
	ctx := w.DCtx()
	m.escrowPre = escrowBalance(w, ctx, w.M.Ent.Denom)
	m.lockedPre = lockedMap(w, ctx)
}

func minBig(a, b *big.Int) *big.Int {
	if a.Cmp(b) < 0 {
		return a
	}
	return b
}

func (m *monC04) AfterTx(w *World, tx *TxCtx) {
	ctx := w.DCtx()
	ent := w.M.Ent
	now := escrowBalance(w, ctx, ent.Denom)
	d := new(big.Int).Sub(now, m.escrowPre)
	if d.Sign() != 0 {
		w.Probe("c04.escrow-moved-by-tx")
		payer := tx.Payer.String()
		L := m.lockedPre[payer]
		if L == nil {
			L = new(big.Int)
		}
		F := tx.Fee.AmountOf(ent.Denom).BigInt()
		ok := tx.AntePassed && hasRegistryLeaf(tx.Msgs) && L.Sign() > 0 && d.Sign() < 0 && new(big.Int).Neg(d).Cmp(minBig(F, L)) == 0
		if !ok {
			cl := "C04/escrow-debited-by-transaction"
			if d.Sign() > 0 {
				cl = "C04/escrow-credited-by-transaction"
			}
			w.Violate("C04", cl, "tx %d/%d (%s, code %d, ante %v) changed the escrow balance by %s (payer locked %s, fee %s)", tx.Block, tx.Idx, kindsOf(tx), tx.Resp.Code, tx.AntePassed, d, L, tx.Fee)
		}
	}
	m.escrowPre = now
}

func (m *monC04) AfterEnd(w *World, _ abci.ResponseEndBlock) {
	ctx := w.DCtx()
	now := escrowBalance(w, ctx, w.M.Ent.Denom)
	if now.Cmp(m.escrowPre) != 0 {
		w.Violate("C04", "C04/escrow-moved-in-endblock", "escrow changed from %s to %s in EndBlock", m.escrowPre, now)
	}
	m.escrowPre = now
}

func (m *monC04) AfterBlock(w *World) {
	ctx := w.CCtx()
	k := w.Ref.App.EnterpriseKeeper
	ent := w.M.Ent
	// figures through the public queries
	tl, err := k.TotalLocked(sdk.WrapSDKContext(ctx), &enttypes.QueryTotalLockedRequest{})
	if err != nil {
		w.Violate("C04", "C04/query-error", "TotalLocked: %v", err)
		return
	}
	ts, err := k.TotalSpentEFUND(sdk.WrapSDKContext(ctx), &enttypes.QueryTotalSpentEFUNDRequest{})
	if err != nil {
		w.Violate("C04", "C04/query-error", "TotalSpentEFUND: %v", err)
		return
	}
	esc := escrowBalance(w, ctx, tl.Amount.Denom)
	locked, spent := lockedMap(w, ctx), spentMap(w, ctx)
	sumL, sumS := new(big.Int), new(big.Int)
	for _, a := range sortedKeys(locked) {
		sumL.Add(sumL, locked[a])
	}
	for _, a := range sortedKeys(spent) {
		sumS.Add(sumS, spent[a])
	}
	if esc.Cmp(tl.Amount.Amount.BigInt()) != 0 {
		w.Violate("C04", "C04/escrow-ne-total-locked", "escrow balance %s, total locked %s", esc, tl.Amount)
	}
	if sumL.Cmp(tl.Amount.Amount.BigInt()) != 0 {
		w.Violate("C04", "C04/total-locked-ne-sum", "total locked %s, sum of per-account locked %s", tl.Amount, sumL)
	}
	if sumS.Cmp(ts.Amount.Amount.BigInt()) != 0 {
		w.Violate("C04", "C04/total-spent-ne-sum", "total spent %s, sum of per-account spent %s", ts.Amount, sumS)
	}
	// per-account point queries agree with the lists, and locked + spent = Σ completed
	seen := map[string]bool{}
	for a := range locked {
		seen[a] = true
	}
	for a := range spent {
		seen[a] = true
	}
	for a := range ent.Completed {
		seen[a] = true
	}
	for _, a := range sortedKeys(seen) {
		l, s, c := locked[a], spent[a], ent.Completed[a]
		if l == nil {
			l = new(big.Int)
		}
		if s == nil {
			s = new(big.Int)
		}
		if c == nil {
			c = new(big.Int)
		}
		lq, err1 := k.LockedUndByAddress(sdk.WrapSDKContext(ctx), &enttypes.QueryLockedUndByAddressRequest{Owner: a})
		sq, err2 := k.SpentEFUNDByAddress(sdk.WrapSDKContext(ctx), &enttypes.QuerySpentEFUNDByAddressRequest{Address: a})
		if err1 != nil || err2 != nil || lq.Amount.Amount.BigInt().Cmp(l) != 0 || sq.Amount.Amount.BigInt().Cmp(s) != 0 {
			w.Violate("C04", "C04/point-query-ne-list", "account %s: lists locked=%s spent=%s, queries %v %v (%v %v)", a, l, s, lq, sq, err1, err2)
		}
		if eq, err := k.EnterpriseAccount(sdk.WrapSDKContext(ctx), &enttypes.QueryEnterpriseAccountRequest{Address: a}); err != nil || eq.Account.LockedEfund.Amount.BigInt().Cmp(l) != 0 || eq.Account.SpentEfund.Amount.BigInt().Cmp(s) != 0 {
			w.Violate("C04", "C04/point-query-ne-list", "account %s: lists locked=%s spent=%s, EnterpriseAccount query %v (%v)", a, l, s, eq, err)
		}
		if new(big.Int).Add(l, s).Cmp(c) != 0 {
			w.Violate("C04", "C04/locked-plus-spent-ne-completed", "account %s: locked %s + spent %s != completed orders %s", a, l, s, c)
		}
	}
	if len(locked) > 0 {
		w.Probe("c04.nonzero-locked")
	}
	if sumS.Sign() > 0 {
		w.Probe("c04.nonzero-spent")
	}
	if w.BlockIdx%4 == 0 {
		w.checkInvariants(ctx, "C04")
	}
	m.escrowPre = esc
}

// ---------------------------------------------------------------------------------------------
// C05 — locked eFUND can be spent only as WRKChain/BEACON fees

type monC05 struct {
	BaseMonitor
	lockedPre, spentPre map[string]*big.Int
	entDigestPre        string
	spendPre            map[string]*big.Int
}

func (m *monC05) Name() string { return "C05" }

func (m *monC05) BeforeTx(w *World, tx *TxCtx) {
	ctx := w.DCtx()
	m.lockedPre, m.spentPre = lockedMap(w, ctx), spentMap(w, ctx)
	m.entDigestPre = storeDigest(w, ctx, enttypes.StoreKey, nil)
}

func diffMaps(a, b map[string]*big.Int) map[string]*big.Int {
	out := map[string]*big.Int{}
	for k, v := range b {
		av := a[k]
		if av == nil {
			av = new(big.Int)
		}
		if d := new(big.Int).Sub(v, av); d.Sign() != 0 {
			out[k] = d
		}
	}
	for k, v := range a {
		if _, ok := b[k]; !ok && v.Sign() != 0 {
			out[k] = new(big.Int).Neg(v)
		}
	}
	return out
}

func (m *monC05) AfterTx(w *World, tx *TxCtx) {
	ctx := w.DCtx()
	ent := w.M.Ent
	dl, ds := diffMaps(m.lockedPre, lockedMap(w, ctx)), diffMaps(m.spentPre, spentMap(w, ctx))
	payer := tx.Payer.String()
	L := m.lockedPre[payer]
	if L == nil {
		L = new(big.Int)
	}
	F := tx.Fee.AmountOf(ent.Denom).BigInt()
	M := hasRegistryMsg(tx.Msgs)
	nested := !M && hasRegistryLeaf(tx.Msgs)
	kind := kindsOf(tx)
	if !tx.AntePassed {
		if len(dl) > 0 || len(ds) > 0 {
			w.Violate("C05", "C05/locked-changed-by-rejected-tx", "tx %d/%d (%s, code %d) failed before execution but locked/spent changed: %v %v", tx.Block, tx.Idx, kind, tx.Resp.Code, dl, ds)
		}
		if storeDigest(w, ctx, enttypes.StoreKey, nil) != m.entDigestPre {
			w.Violate("C05", "C05/enterprise-state-changed-by-rejected-tx", "tx %d/%d (%s) failed before execution but enterprise state changed", tx.Block, tx.Idx, kind)
		}
		if M && L.Sign() > 0 {
			w.Probe("c05.rejected-with-locked-payer")
		}
		return
	}
	// everybody but the payer must be untouched
	for _, a := range sortedKeys(dl) {
		if a != payer {
			w.Violate("C05", "C05/locked-of-non-payer-changed", "tx %d/%d (%s): locked of %s changed by %s (payer %s)", tx.Block, tx.Idx, kind, a, dl[a], payer)
		}
	}
	for _, a := range sortedKeys(ds) {
		if a != payer {
			w.Violate("C05", "C05/spent-of-non-payer-changed", "tx %d/%d (%s): spent of %s changed by %s", tx.Block, tx.Idx, kind, a, ds[a])
		}
	}
	gotL, gotS := dl[payer], ds[payer]
	if gotL == nil {
		gotL = new(big.Int)
	}
	if gotS == nil {
		gotS = new(big.Int)
	}
	if new(big.Int).Add(gotL, gotS).Sign() != 0 {
		w.Violate("C05", "C05/unlock-not-recorded-as-spent", "tx %d/%d (%s): payer locked %s, spent %s", tx.Block, tx.Idx, kind, gotL, gotS)
	}
	unlock := new(big.Int).Neg(minBig(F, L))
	switch {
	case !M && !nested:
		if gotL.Sign() != 0 {
			w.Violate("C05", "C05/locked-moved-by-non-module-tx", "tx %d/%d (%s) has no WRKChain/BEACON message but changed the payer's locked eFUND by %s", tx.Block, tx.Idx, kind, gotL)
		}
		if L.Sign() > 0 {
			w.Probe("c05.non-module-tx-by-locked-payer")
		}
	case M && len(tx.Granter) == 0 && !tx.Spec.Replay:
		if L.Sign() > 0 {
			w.Probe("c05.module-tx-by-locked-payer")
		}
		if gotL.Cmp(unlock) != 0 {
			w.Violate("C05", "C05/unlock-amount-wrong", "tx %d/%d (%s): payer locked %s fee %s: locked changed by %s, expected %s", tx.Block, tx.Idx, kind, L, tx.Fee, gotL, unlock)
		}
	case M && len(tx.Granter) > 0 && !tx.Granter.Equals(tx.Payer) && !tx.Spec.Replay:
		// a fee granter pays the fee: the signer's locked eFUND is not spent as a WRKChain/BEACON
		// fee by this transaction, so none of it may be unlocked (unlocked coins would simply become
		// spendable)
		w.Probe("c05.module-tx-with-fee-granter")
		if gotL.Sign() != 0 {
			w.Violate("C05", "C05/unlocked-although-a-granter-pays-the-fee", "tx %d/%d (%s): the fee %s is paid by granter %s, yet the signer's locked eFUND (%s) changed by %s", tx.Block, tx.Idx, kind, tx.Fee, tx.Granter, L, gotL)
		}
	default:
		// nested-only module message or a replayed tx: the statement allows 0 or -min(F,L)
		if gotL.Sign() != 0 && gotL.Cmp(unlock) != 0 {
			w.Violate("C05", "C05/unlock-amount-wrong", "tx %d/%d (%s): payer locked %s fee %s: locked changed by %s, allowed 0 or %s", tx.Block, tx.Idx, kind, L, tx.Fee, gotL, unlock)
		}
	}
}

func accountKind(w *World, ctx sdk.Context, addr sdk.AccAddress) string {
	acc := w.Ref.App.AccountKeeper.GetAccount(ctx, addr)
	if acc == nil {
		return "none"
	}
	if _, ok := acc.(vestexported.VestingAccount); ok {
		return "vesting"
	}
	if _, ok := acc.(authtypes.ModuleAccountI); ok {
		return "module"
	}
	return "base"
}

func (m *monC05) AfterBlock(w *World) {
	ctx := w.CCtx()
	// spendable of every account that may be credited in the next BeginBlock (accepted orders)
	m.spendPre = map[string]*big.Int{}
	ent := w.M.Ent
	for _, id := range ent.orderIds() {
		o := ent.Orders[id]
		if o.Status == 2 {
			a, err := sdk.AccAddressFromBech32(o.Purchaser)
			if err == nil {
				m.spendPre[o.Purchaser] = w.Ref.App.BankKeeper.SpendableCoins(ctx, a).AmountOf(o.Denom).BigInt()
			}
		}
	}
}

func (m *monC05) AfterBegin(w *World, _ abci.ResponseBeginBlock) {
	ctx := w.DCtx()
	ent := w.M.Ent
	done := map[string]bool{}
	for _, id := range ent.Minted {
		o := ent.Orders[id]
		if done[o.Purchaser] {
			continue
		}
		done[o.Purchaser] = true
		pre, ok := m.spendPre[o.Purchaser]
		if !ok {
			continue
		}
		a, _ := sdk.AccAddressFromBech32(o.Purchaser)
		kind := accountKind(w, ctx, a)
		w.Probe("c05.completion." + kind)
		post := w.Ref.App.BankKeeper.SpendableCoins(ctx, a).AmountOf(o.Denom).BigInt()
		if post.Cmp(pre) > 0 {
			w.Violate("C05", "C05/completion-raises-spendable/"+kind, "order %d (%s%s) completed for %s account %s: spendable %s -> %s", id, o.Amount, o.Denom, kind, o.Purchaser, pre, post)
		}
	}
}

// ---------------------------------------------------------------------------------------------
// C17 — reported circulating supply = total supply − locked eFUND

type monC17 struct {
	BaseMonitor
	hist map[int64]*c17Figures // what the supply endpoints had to answer at the last few heights
}

type c17Figures struct {
	bank   map[string]*big.Int
	locked *big.Int
	denom  string
}

func (m *monC17) Name() string  { return "C17" }
func (m *monC17) Init(w *World) { w.armedShadow = w.armedShadow || w.PropOverride == "C17" }

func (m *monC17) AfterBlock(w *World) {
	m.check(w, w.CCtx(), &QuerySpec{Kind: "supply.total", Limit: 100})
	m.served(w)
}

// c17Locked is the reference for "total locked eFUND": what the bank holds in the enterprise
// escrow account (a genesis document with unbacked locked eFUND is the one scenario where the
// two differ by construction; there the module's own figure has to do).
func c17Locked(w *World, ctx sdk.Context, denom string) *big.Int {
	if w.T.Knobs.UnbackedLocked != "" {
		if tl, err := w.Ref.App.EnterpriseKeeper.TotalLocked(sdk.WrapSDKContext(ctx), &enttypes.QueryTotalLockedRequest{}); err == nil {
			return tl.Amount.Amount.BigInt()
		}
	}
	return escrowBalance(w, ctx, denom)
}

// served asks the supply endpoints the way a client reaches them - through the ABCI query
// connection, first at an earlier height and then at the latest one - and compares the answers
// with the figures recorded when those heights were committed.
func (m *monC17) served(w *World) {
	ctx := w.CCtx()
	denom := w.M.Ent.Denom
	cur := &c17Figures{bank: supplyMap(w, ctx), locked: c17Locked(w, ctx, denom), denom: denom}
	h := w.Ref.App.LastBlockHeight()
	ask := func(height int64, f *c17Figures, tag string) {
		want := new(big.Int)
		if f.bank[f.denom] != nil {
			want.Set(f.bank[f.denom])
		}
		want.Sub(want, f.locked)
		var so enttypes.QuerySupplyOfResponse
		if err := abciQueryAt(w, "/mainchain.enterprise.v1.Query/SupplyOf", height, &enttypes.QuerySupplyOfRequest{Denom: f.denom}, &so); err != nil {
			w.Violate("C17", "C17/served/query-error"+tag, "SupplyOf(%s) at height %d: %v", f.denom, height, err)
		} else if so.Amount.Amount.BigInt().Cmp(want) != 0 {
			w.Violate("C17", "C17/served/supply-of-native-wrong"+tag, "SupplyOf(%s) asked at height %d answers %s; bank supply %s, locked %s", f.denom, height, so.Amount, bigStr(f.bank[f.denom]), f.locked)
		}
		var tu enttypes.QueryTotalUnlockedResponse
		if err := abciQueryAt(w, "/mainchain.enterprise.v1.Query/TotalUnlocked", height, &enttypes.QueryTotalUnlockedRequest{}, &tu); err != nil {
			w.Violate("C17", "C17/served/query-error"+tag, "TotalUnlocked at height %d: %v", height, err)
		} else if tu.Amount.Amount.BigInt().Cmp(want) != 0 {
			w.Violate("C17", "C17/served/locked-plus-unlocked-ne-total"+tag, "TotalUnlocked asked at height %d answers %s; bank supply %s, locked %s", height, tu.Amount, bigStr(f.bank[f.denom]), f.locked)
		}
		var ts enttypes.QueryTotalSupplyResponse
		if err := abciQueryAt(w, "/mainchain.enterprise.v1.Query/TotalSupplyOverwrite", height, &enttypes.QueryTotalSupplyRequest{Pagination: &query.PageRequest{Limit: 1000}}, &ts); err != nil {
			w.Violate("C17", "C17/served/query-error"+tag, "TotalSupplyOverwrite at height %d: %v", height, err)
		} else if ts.Supply.AmountOf(f.denom).BigInt().Cmp(want) != 0 {
			w.Violate("C17", "C17/served/total-supply-entry-wrong"+tag, "the supply listing asked at height %d holds %s of %s; bank supply %s, locked %s", height, ts.Supply.AmountOf(f.denom), f.denom, bigStr(f.bank[f.denom]), f.locked)
		}
	}
	if !w.IsShadow {
		if m.hist == nil {
			m.hist = map[int64]*c17Figures{}
		}
		m.hist[h] = cur
		delete(m.hist, h-6)
		// an earlier height first (clients and explorers do ask for old heights), then the latest
		if old := m.hist[h-1-int64(w.BlockIdx%4)]; old != nil {
			ask(h-1-int64(w.BlockIdx%4), old, "/historical")
			w.Probe("c17.served-historical")
		}
	}
	ask(0, cur, "")
	w.Probe("c17.served-latest")
}

func (m *monC17) OnQuery(w *World, q *QuerySpec, mid bool) {
	if !strings.HasPrefix(q.Kind, "supply.") {
		return
	}
	m.check(w, w.Ctx(), q)
}

func (m *monC17) check(w *World, ctx sdk.Context, q *QuerySpec) {
	k := w.Ref.App.EnterpriseKeeper
	gctx := sdk.WrapSDKContext(ctx)
	bank := supplyMap(w, ctx)
	denom := k.GetParamDenom(ctx)
	tl, err := k.TotalLocked(gctx, &enttypes.QueryTotalLockedRequest{})
	if err != nil {
		w.Violate("C17", "C17/query-error", "TotalLocked %v", err)
		return
	}
	// the reference is what the bank holds in escrow, not the module's own account of it
	locked := c17Locked(w, ctx, w.M.Ent.Denom)
	if tl.Amount.Amount.BigInt().Cmp(locked) != 0 {
		w.Violate("C17", "C17/total-locked-differs-from-escrow", "TotalLocked answers %s, the escrow account holds %s", tl.Amount, locked)
	}
	if locked.Sign() > 0 {
		w.Probe("c17.locked-positive")
	}
	// SupplyOf for every denom
	for _, d := range sortedDenoms(bank) {
		r, err := k.SupplyOf(gctx, &enttypes.QuerySupplyOfRequest{Denom: d})
		if err != nil {
			w.Violate("C17", "C17/query-error", "SupplyOf(%s) %v", d, err)
			continue
		}
		// the endpoint registered over the bank module's /cosmos/bank/v1beta1/supply/by_denom route
		if ro, err := k.SupplyOfOverwrite(gctx, &enttypes.QuerySupplyOfRequest{Denom: d}); err != nil || !ro.Amount.IsEqual(r.Amount) {
			w.Violate("C17", "C17/bank-route-overwrite-differs", "SupplyOfOverwrite(%s)=%v err=%v, SupplyOf=%s", d, ro, err, r.Amount)
		}
		want := new(big.Int).Set(bank[d])
		if d == denom {
			want.Sub(want, locked)
		}
		if r.Amount.Amount.BigInt().Cmp(want) != 0 || r.Amount.Denom != d {
			cl := "C17/supply-of-other-denom-wrong"
			if d == denom {
				cl = "C17/supply-of-native-wrong"
			}
			w.Violate("C17", cl, "SupplyOf(%s)=%s, bank %s, locked %s", d, r.Amount, bank[d], locked)
		}
		if r.Amount.Amount.IsNegative() {
			w.Violate("C17", "C17/negative-figure", "SupplyOf(%s)=%s", d, r.Amount)
		}
	}
	// TotalUnlocked
	tu, err := k.TotalUnlocked(gctx, &enttypes.QueryTotalUnlockedRequest{})
	if err == nil {
		nat := bank[denom]
		if nat == nil {
			nat = new(big.Int)
		}
		if new(big.Int).Add(tu.Amount.Amount.BigInt(), locked).Cmp(nat) != 0 || tu.Amount.Amount.IsNegative() {
			w.Violate("C17", "C17/locked-plus-unlocked-ne-total", "unlocked %s + locked %s != bank supply %s", tu.Amount, locked, nat)
		}
	} else {
		w.Violate("C17", "C17/query-error", "TotalUnlocked %v", err)
	}
	// EnterpriseSupply (uint64 fields) only while representable
	nat := bank[denom]
	if nat != nil && nat.IsUint64() {
		es, err := k.EnterpriseSupply(gctx, &enttypes.QueryEnterpriseSupplyRequest{})
		if err != nil {
			w.Violate("C17", "C17/query-error", "EnterpriseSupply %v", err)
		} else {
			s := es.Supply
			if s.Total != nat.Uint64() || s.Locked != locked.Uint64() || s.Amount != s.Total-s.Locked || s.Denom != denom {
				w.Violate("C17", "C17/enterprise-supply-wrong", "EnterpriseSupply %+v, bank %s locked %s", s, nat, locked)
			}
		}
	}
	// paginated TotalSupply: every denomination exactly once, figures as above
	limit := q.Limit
	if limit == 0 {
		limit = 100
	}
	seen := map[string]int{}
	var key []byte
	offset := uint64(0)
	for page := 0; page < 2000; page++ {
		pr := &query.PageRequest{Limit: limit, CountTotal: q.Count, Reverse: q.Rev}
		if q.Offset {
			pr.Offset = offset
		} else {
			pr.Key = key
		}
		r, err := k.TotalSupply(gctx, &enttypes.QueryTotalSupplyRequest{Pagination: pr})
		if err != nil {
			w.Violate("C17", "C17/query-error", "TotalSupply page %d: %v", page, err)
			return
		}
		// the endpoint registered over the bank module's /cosmos/bank/v1beta1/supply route
		if ro, err := k.TotalSupplyOverwrite(gctx, &enttypes.QueryTotalSupplyRequest{Pagination: pr}); err != nil || !ro.Supply.IsEqual(r.Supply) {
			w.Violate("C17", "C17/bank-route-overwrite-differs", "TotalSupplyOverwrite page %d = %v err=%v, TotalSupply %s", page, ro, err, r.Supply)
		}
		for _, c := range r.Supply {
			seen[c.Denom]++
			want := new(big.Int)
			if bank[c.Denom] != nil {
				want.Set(bank[c.Denom])
			}
			if c.Denom == denom {
				want.Sub(want, locked)
			}
			if c.Amount.BigInt().Cmp(want) != 0 {
				w.Violate("C17", "C17/total-supply-entry-wrong", "TotalSupply lists %s, bank %s, locked %s", c, bigStr(bank[c.Denom]), locked)
			}
		}
		if q.Count && r.Pagination != nil && page == 0 && r.Pagination.Total != uint64(len(bank)) {
			w.Violate("C17", "C17/total-supply-count-wrong", "pagination total %d, denominations %d", r.Pagination.Total, len(bank))
		}
		offset += uint64(len(r.Supply))
		if r.Pagination == nil || len(r.Pagination.NextKey) == 0 || len(r.Supply) == 0 {
			break
		}
		key = r.Pagination.NextKey
		w.Probe("c17.multi-page")
	}
	for _, d := range sortedDenoms(bank) {
		if seen[d] != 1 {
			w.Violate("C17", "C17/total-supply-listing-incomplete-or-duplicated", "denomination %s listed %d times (limit %d offset %v reverse %v)", d, seen[d], limit, q.Offset, q.Rev)
		}
	}
	for _, d := range sortedKeys(seen) {
		if bank[d] == nil {
			w.Violate("C17", "C17/total-supply-listing-incomplete-or-duplicated", "unknown denomination %s listed", d)
		}
	}
}
