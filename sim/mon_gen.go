package simnet

// mon_gen.go — oracles for the cross-cutting properties C13 (entitled signer) and C14 (no halt,
// failed transactions change nothing).

import (
	"fmt"
	"math/big"
	"strings"

	abci "github.com/cometbft/cometbft/abci/types"
	sdk "github.com/cosmos/cosmos-sdk/types"
	authtypes "github.com/cosmos/cosmos-sdk/x/auth/types"
	banktypes "github.com/cosmos/cosmos-sdk/x/bank/types"
	govtypes "github.com/cosmos/cosmos-sdk/x/gov/types"
	govv1 "github.com/cosmos/cosmos-sdk/x/gov/types/v1"

	beacontypes "github.com/unification-com/mainchain/x/beacon/types"
	enttypes "github.com/unification-com/mainchain/x/enterprise/types"
	streamtypes "github.com/unification-com/mainchain/x/stream/types"
	wrkchaintypes "github.com/unification-com/mainchain/x/wrkchain/types"
)

// ---------------------------------------------------------------------------------------------
// C13 — every state-changing message takes effect only for its entitled signer

type monC13 struct {
	BaseMonitor
	pre     string
	preFull string
}

func (m *monC13) Name() string { return "C13" }

func (m *monC13) BeforeTx(w *World, tx *TxCtx) {
	ctx := w.DCtx()
	m.pre = moduleDigest(w, ctx)
	m.preFull = fullModuleDigest(w, ctx)
}

// namedSigner returns the party a custom message belongs to according to the *statement* (not
// according to the message's own GetSigners, which is part of the code under test): the purchaser
// for raising an order, the signer field for decisions and whitelist changes, the owner for
// WRKChain/BEACON operations, the stream sender for create/top-up/flow-rate/cancel, the stream
// receiver for claims, the authority for parameter updates.
func namedSigner(msg sdk.Msg) string {
	switch x := msg.(type) {
	case *enttypes.MsgUndPurchaseOrder:
		return x.Purchaser
	case *enttypes.MsgProcessUndPurchaseOrder:
		return x.Signer
	case *enttypes.MsgWhitelistAddress:
		return x.Signer
	case *enttypes.MsgUpdateParams:
		return x.Authority
	case *wrkchaintypes.MsgRegisterWrkChain:
		return x.Owner
	case *wrkchaintypes.MsgRecordWrkChainBlock:
		return x.Owner
	case *wrkchaintypes.MsgPurchaseWrkChainStateStorage:
		return x.Owner
	case *wrkchaintypes.MsgUpdateParams:
		return x.Authority
	case *beacontypes.MsgRegisterBeacon:
		return x.Owner
	case *beacontypes.MsgRecordBeaconTimestamp:
		return x.Owner
	case *beacontypes.MsgPurchaseBeaconStateStorage:
		return x.Owner
	case *beacontypes.MsgUpdateParams:
		return x.Authority
	case *streamtypes.MsgCreateStream:
		return x.Sender
	case *streamtypes.MsgTopUpDeposit:
		return x.Sender
	case *streamtypes.MsgUpdateFlowRate:
		return x.Sender
	case *streamtypes.MsgCancelStream:
		return x.Sender
	case *streamtypes.MsgClaimStream:
		return x.Receiver
	case *streamtypes.MsgUpdateParams:
		return x.Authority
	}
	return ""
}

// AfterEnd: messages executed by governance. A proposal that passed and executed names the
// governance account as the party of each custom message; whether that account is the party the
// operation belongs to is judged like for anybody else (it is the authority for parameter updates;
// it is an enterprise signer, a whitelisted purchaser, an owner or a stream party only if it was
// made one).
func (m *monC13) AfterEnd(w *World, _ abci.ResponseEndBlock) {
	for _, ge := range w.M.Gov.Executed {
		k := msgKind(ge.Msg)
		w.Probe("c13.executed-by-governance")
		if ge.Exp.MustFail && !ge.Exp.Entitled {
			w.Violate("C13", "C13/not-entitled-accepted/"+ge.Exp.Rule+"/via-governance", "proposal %d passed and executed %s although %s", ge.Proposal, k, ge.Exp.Rule)
		}
	}
}

func (m *monC13) AfterTx(w *World, tx *TxCtx) {
	leaves, _ := tx.Stash["leaves"].([]Leaf)
	exps := expectationsOf(tx)
	signer := tx.Signer.String()
	// (a) signature level: a top-level custom message naming someone else than the transaction signer
	impersonated := ""
	for _, top := range tx.Msgs {
		k := msgKind(top)
		if !isCustom(k) {
			continue
		}
		func() {
			defer func() { _ = recover() }()
			if ns := namedSigner(top); ns != "" && ns != signer && !tx.Signers[ns] {
				impersonated = k
			}
		}()
	}
	// (b) statement level: the first leaf the model says is not entitled; nested leaves additionally need
	// the named party to be the executing grantee or to have granted the message type to it
	notEntitled := ""
	for i, e := range exps {
		if i >= len(leaves) {
			break
		}
		lf := leaves[i]
		k := msgKind(lf.Msg)
		if !isCustom(k) {
			continue
		}
		if e.MustFail && !e.Entitled {
			notEntitled = e.Rule
			break
		}
		if lf.Depth > 0 {
			ns := ""
			func() {
				defer func() { _ = recover() }()
				ns = namedSigner(lf.Msg)
			}()
			if ns != lf.Grantee && !w.M.Grants[ns+"|"+lf.Grantee+"|"+sdk.MsgTypeURL(lf.Msg)] {
				notEntitled = k + "/nested-without-grant"
				break
			}
		}
	}
	ctx := w.DCtx()
	switch {
	case impersonated != "" && !tx.Spec.Replay:
		w.Probe("c13.impersonation")
		if tx.Resp.Code == 0 {
			w.Violate("C13", "C13/impersonation-accepted/"+impersonated, "tx %d/%d (%s) signed by %s names another account and succeeded", tx.Block, tx.Idx, kindsOf(tx), signer)
		} else if fullModuleDigest(w, ctx) != m.preFull {
			w.Violate("C13", "C13/impersonation-changed-state/"+impersonated, "tx %d/%d (%s) signed by %s for another account was rejected but module state changed", tx.Block, tx.Idx, kindsOf(tx), signer)
		}
	case notEntitled != "":
		w.Probe("c13.not-entitled." + strings.SplitN(notEntitled, "/", 2)[0])
		if tx.Resp.Code == 0 {
			w.Violate("C13", "C13/not-entitled-accepted/"+notEntitled, "tx %d/%d (%s) signed by %s succeeded although %s", tx.Block, tx.Idx, kindsOf(tx), signer, notEntitled)
		} else if moduleDigest(w, ctx) != m.pre {
			w.Violate("C13", "C13/not-entitled-changed-state/"+notEntitled, "tx %d/%d (%s) was rejected (%s) but module state changed", tx.Block, tx.Idx, kindsOf(tx), notEntitled)
		}
	default:
		hasCustom := false
		for _, lf := range leaves {
			if isCustom(msgKind(lf.Msg)) {
				hasCustom = true
			}
		}
		if hasCustom && tx.Resp.Code == 0 {
			w.Probe("c13.entitled-ok")
		}
	}
}

// ---------------------------------------------------------------------------------------------
// C14 — no history halts the chain; failed transactions change nothing

type monC14 struct {
	BaseMonitor
	pre      string
	preSheet sheet
	preSeq   uint64
	preLock  map[string]*big.Int
}

func (m *monC14) Name() string { return "C14" }

func (m *monC14) BeforeTx(w *World, tx *TxCtx) {
	ctx := w.DCtx()
	m.pre = moduleDigest(w, ctx)
	m.preSheet = balanceSheet(w, ctx)
	_, m.preSeq = w.accNumSeq(ctx, tx.Signer)
	m.preLock = lockedMap(w, ctx)
}

// haltCause adds the discriminating circumstance of a halt to its class.
func haltCause(w *World, site string) string {
	if site == "overflow" && acceptedOrdersOverflowSupply(w) {
		return "/accepted-orders-exceed-256-bit-supply"
	}
	if site == "group-tally" && w.M != nil && len(w.M.Grp.Left) > 0 {
		return "/group-left-by-its-members"
	}
	if site == "group-tally" && w.M != nil && len(w.M.Grp.Extreme) > 0 {
		return "/group-weights-beyond-decimal-range"
	}
	denom := w.M != nil && (w.M.Ent.Denom != w.T.Knobs.Ent.Denom || w.M.Ent.DenomChanged)
	gov := govBelowDeposits(w) || govSpendingProposal(w)
	// both circumstances may hold in one run (one proposal can change the denomination and pay out of
	// the governance account): the site of the panic tells which of the two it is
	if gov && (site == "insufficient-funds" || strings.HasPrefix(site, "invariant-gov")) {
		return "/gov-account-spent-by-proposal"
	}
	if denom {
		return "/enterprise-denom-changed-by-governance"
	}
	if gov {
		return "/gov-account-spent-by-proposal"
	}
	return ""
}

// acceptedOrdersOverflowSupply: the orders waiting to be minted, added to what exists of their
// denomination, do not fit the 256 bits of an sdk.Int.
func acceptedOrdersOverflowSupply(w *World) bool {
	if w.M == nil {
		return false
	}
	sums := map[string]*big.Int{}
	for _, id := range sortedU64(w.M.Ent.Orders) {
		if o := w.M.Ent.Orders[id]; o.Status == 2 {
			if sums[o.Denom] == nil {
				sums[o.Denom] = new(big.Int)
			}
			sums[o.Denom].Add(sums[o.Denom], o.Amount)
		}
	}
	limit := new(big.Int).Lsh(big.NewInt(1), 256)
	for _, d := range sortedKeys(sums) {
		have := w.Ref.App.BankKeeper.GetSupply(w.CCtx(), d).Amount.BigInt()
		if new(big.Int).Add(have, sums[d]).Cmp(limit) >= 0 {
			return true
		}
	}
	return false
}

// govSpendingProposal: a proposal whose messages spend from the governance module account itself
// (a stream funded by it, a transfer out of it) is pending or has passed. The account holds
// nothing but the deposits of the live proposals, so executing such a message spends them.
func govSpendingProposal(w *World) bool {
	if w.M == nil {
		return false
	}
	if w.M.Gov.SpentFromGov {
		return true
	}
	for _, id := range sortedU64(w.M.Gov.Pending) {
		if spendsFromGov(w.M.Gov.Pending[id].Msgs) {
			return true
		}
	}
	return false
}

func spendsFromGov(msgs []sdk.Msg) bool {
	gov := ModuleAddr(govtypes.ModuleName).String()
	for _, lf := range Flatten(msgs) {
		switch m := lf.Msg.(type) {
		case *streamtypes.MsgCreateStream:
			if m.Sender == gov {
				return true
			}
		case *streamtypes.MsgTopUpDeposit:
			if m.Sender == gov {
				return true
			}
		case *banktypes.MsgSend:
			if m.FromAddress == gov {
				return true
			}
		}
	}
	return false
}

// govBelowDeposits: the governance module account holds less than the deposits of the proposals
// still in their deposit or voting period (on the last committed state) - possible only when a
// passed proposal executed a message that spends from the governance account itself.
func govBelowDeposits(w *World) (below bool) {
	_, _ = safely(func() {
		ctx := w.CCtx()
		sum := sdk.NewCoins()
		w.Ref.App.GovKeeper.IterateAllDeposits(ctx, func(d govv1.Deposit) bool {
			sum = sum.Add(d.Amount...)
			return false
		})
		bal := w.Ref.App.BankKeeper.GetAllBalances(ctx, ModuleAddr(govtypes.ModuleName))
		below = !bal.IsAllGTE(sum)
	})
	return below
}

func haltSite(s string) string {
	if i := strings.Index(s, "invariant broken: "); i >= 0 {
		// the crisis module halts the chain on a broken registered invariant (--inv-check-period)
		rest := s[i+len("invariant broken: "):]
		if j := strings.IndexAny(rest, "\n"); j > 0 {
			rest = rest[:j]
		}
		rest = strings.TrimSpace(strings.ReplaceAll(strings.ReplaceAll(rest, ": ", "-"), " ", "-"))
		if len(rest) > 60 {
			rest = rest[:60]
		}
		return "invariant-" + rest
	}
	switch {
	case strings.Contains(s, "doTallyAndUpdate"):
		return "group-tally"
	case strings.Contains(s, "invalid coin denominations"):
		return "coin-denominations"
	case strings.Contains(s, "overflow"):
		return "overflow"
	case strings.Contains(s, "purchase order"):
		return "purchase-order-queue"
	case strings.Contains(s, "nil pointer"):
		return "nil-pointer"
	case strings.Contains(s, "negative"):
		return "negative-amount"
	case strings.Contains(s, "insufficient"):
		return "insufficient-funds"
	}
	return "other"
}

func (m *monC14) AfterTx(w *World, tx *TxCtx) {
	if tx.Resp.Code == 0 {
		w.Probe("c14.tx-ok")
		return
	}
	ctx := w.DCtx()
	kind := "ante-failed"
	if tx.AntePassed {
		kind = "msg-failed"
		if len(tx.Msgs) > 1 {
			w.Probe("c14.multi-msg-failed")
		}
	}
	if isPanicResult(tx.Resp.Code, tx.Resp.Log) {
		w.Probe("c14.failed-by-panic")
	}
	if strings.Contains(tx.Resp.Log, "out of gas") {
		w.Probe("c14.failed-by-out-of-gas")
	}
	w.Probe("c14." + kind)
	if moduleDigest(w, ctx) != m.pre {
		w.Violate("C14", "C14/failed-tx-changed-module-state/"+kind, "tx %d/%d (%s, code %d) failed but module state changed: %s", tx.Block, tx.Idx, kindsOf(tx), tx.Resp.Code, trunc(tx.Resp.Log, 120))
	}
	// balances: only the fee movement (and the eFUND unlock that belongs to it)
	post := balanceSheet(w, ctx)
	d := m.preSheet.delta(post)
	exp := map[string]*big.Int{}
	add := func(a, den string, v *big.Int) {
		k := a + "|" + den
		if exp[k] == nil {
			exp[k] = new(big.Int)
		}
		exp[k].Add(exp[k], v)
		if exp[k].Sign() == 0 {
			delete(exp, k)
		}
	}
	if tx.AntePassed {
		src := tx.Payer.String()
		if len(tx.Granter) > 0 {
			src = tx.Granter.String()
		}
		col := ModuleAddr(authtypes.FeeCollectorName).String()
		for _, c := range tx.Fee {
			add(src, c.Denom, new(big.Int).Neg(c.Amount.BigInt()))
			add(col, c.Denom, c.Amount.BigInt())
		}
		// eFUND unlock of the payer (C05 rule), moves escrow -> payer
		postLock := lockedMap(w, ctx)
		for a, v := range diffMaps(m.preLock, postLock) {
			den := w.M.Ent.Denom
			add(ModuleAddr(enttypes.ModuleName).String(), den, v)
			add(a, den, new(big.Int).Neg(v))
		}
	}
	if fmt.Sprint(sortedDelta(d)) != fmt.Sprint(sortedDelta(exp)) {
		w.Violate("C14", "C14/failed-tx-moved-funds/"+kind, "tx %d/%d (%s, code %d): balances moved %v, fee effects allow %v", tx.Block, tx.Idx, kindsOf(tx), tx.Resp.Code, sortedDelta(d), sortedDelta(exp))
	}
	_, seq := w.accNumSeq(ctx, tx.Signer)
	if !tx.Spec.Replay && tx.Spec.SigFault == "" {
		if tx.AntePassed && seq != m.preSeq+1 || !tx.AntePassed && seq != m.preSeq {
			w.Violate("C14", "C14/sequence-effect-wrong/"+kind, "tx %d/%d: signer sequence %d -> %d", tx.Block, tx.Idx, m.preSeq, seq)
		}
	}
}

func sortedDelta(m map[string]*big.Int) []string {
	var out []string
	for _, k := range sortedKeys(m) {
		out = append(out, k+"="+m[k].String())
	}
	return out
}

// AfterBlock: what-if — would the next block's BeginBlock/EndBlock panic on this state?
func (m *monC14) AfterBlock(w *World) {
	ctx := w.CCtx()
	cctx, _ := ctx.CacheContext()
	next := MakeHeader(w.Hdr.Height+1, w.Now.Add(1e9), w.Log[len(w.Log)-1].AppHash)
	cctx = cctx.WithBlockHeader(next).WithEventManager(sdk.NewEventManager())
	if p, _ := safely(func() {
		w.Ref.App.BeginBlocker(cctx, abci.RequestBeginBlock{Header: next, LastCommitInfo: LastCommit()})
	}); p != "" {
		w.Violate("C14", "C14/next-beginblock-would-panic/"+haltSite(p)+haltCause(w, haltSite(p)), "state after block %d: BeginBlock of the next height panics: %s", w.Hdr.Height, trunc(p, 200))
		// no EndBlock ever follows a BeginBlock that panicked (the chain has halted), and the
		// half-applied state the panic left in this cache is not a state of the chain
		w.Probe("c14.next-block-probe")
		return
	}
	if p, _ := safely(func() { w.Ref.App.EndBlocker(cctx, abci.RequestEndBlock{Height: next.Height}) }); p != "" {
		w.Violate("C14", "C14/next-endblock-would-panic/"+haltSite(p)+haltCause(w, haltSite(p)), "state after block %d: EndBlock of the next height panics: %s", w.Hdr.Height, trunc(p, 200))
	}
	w.Probe("c14.next-block-probe")
}

func (m *monC14) AtEnd(w *World) {
	if w.St.Halted != "" {
		where := strings.SplitN(w.St.Halted, ":", 2)[0]
		w.Violate("C14", "C14/halt/"+where+"/"+haltSite(w.St.Halted)+haltCause(w, haltSite(w.St.Halted)), "chain halted at block %d: %s", w.BlockIdx, trunc(w.St.Halted, 300))
	}
}
