package simnet

// mon_params.go — oracle for C16 (module parameters always valid and effective immediately).
// Validity predicates are written from the statement, not from the Validate() functions.

import (
	"fmt"
	"math/big"
	"regexp"
	"strings"

	abci "github.com/cometbft/cometbft/abci/types"
	sdk "github.com/cosmos/cosmos-sdk/types"

	beacontypes "github.com/unification-com/mainchain/x/beacon/types"
	enttypes "github.com/unification-com/mainchain/x/enterprise/types"
	streamtypes "github.com/unification-com/mainchain/x/stream/types"
	wrkchaintypes "github.com/unification-com/mainchain/x/wrkchain/types"
)

var denomRe = regexp.MustCompile(`^[a-zA-Z][a-zA-Z0-9/:._-]{2,127}$`)

func wellFormedDenom(d string) bool { return denomRe.MatchString(d) }

// invalidEnt returns the first rule of the statement the enterprise parameters break ("" if valid).
func invalidEnt(p enttypes.Params) string {
	if !wellFormedDenom(p.Denom) {
		return "denom"
	}
	if p.MinAccepts == 0 {
		return "min-accepts-zero"
	}
	if p.DecisionTimeLimit == 0 {
		return "time-limit-zero"
	}
	if p.EntSigners == "" {
		return "no-signers"
	}
	parts := strings.Split(p.EntSigners, ",")
	seen := map[string]bool{}
	for _, s := range parts {
		a, err := sdk.AccAddressFromBech32(s)
		if err != nil || a.Empty() || strings.TrimSpace(s) != s {
			return "malformed-signer"
		}
		// signers are accounts: the same account listed twice (in whatever spelling) is one signer,
		// and a list that counts it twice misstates both the quorum and the reject threshold
		if seen[string(a)] {
			return "duplicate-signer"
		}
		seen[string(a)] = true
	}
	if new(big.Int).SetUint64(p.MinAccepts).Cmp(big.NewInt(int64(len(parts)))) > 0 {
		return "fewer-signers-than-min-accepts"
	}
	return ""
}

func invalidReg(feeReg, feeRec, feePur uint64, denom string, def, max uint64) string {
	switch {
	case !wellFormedDenom(denom):
		return "denom"
	case feeReg == 0 || feeRec == 0 || feePur == 0:
		return "fee-zero"
	case def == 0 || max == 0:
		return "limit-zero"
	case def > max:
		return "default-above-max"
	}
	return ""
}

func invalidStream(p streamtypes.Params) string {
	if p.ValidatorFee.IsNil() {
		return "" // a nil decimal cannot be expressed on the wire: it decodes as zero
	}
	if p.ValidatorFee.IsNegative() {
		return "fee-negative"
	}
	if p.ValidatorFee.GT(sdk.OneDec()) {
		return "fee-above-one"
	}
	return ""
}

// invalidUpdate classifies an UpdateParams message; module is "" for other messages.
func invalidUpdate(msg sdk.Msg) (module, why string) {
	switch x := msg.(type) {
	case *enttypes.MsgUpdateParams:
		return "ent", invalidEnt(x.Params)
	case *wrkchaintypes.MsgUpdateParams:
		p := x.Params
		return "wrk", invalidReg(p.FeeRegister, p.FeeRecord, p.FeePurchaseStorage, p.Denom, p.DefaultStorageLimit, p.MaxStorageLimit)
	case *beacontypes.MsgUpdateParams:
		p := x.Params
		return "bcn", invalidReg(p.FeeRegister, p.FeeRecord, p.FeePurchaseStorage, p.Denom, p.DefaultStorageLimit, p.MaxStorageLimit)
	case *streamtypes.MsgUpdateParams:
		return "str", invalidStream(x.Params)
	}
	return "", ""
}

type monC16 struct {
	BaseMonitor
	seenPassed int
}

func (m *monC16) Name() string { return "C16" }

// storedParams reads the four parameter sets through the public Params queries.
func (m *monC16) storedParams(w *World, ctx sdk.Context) (enttypes.Params, wrkchaintypes.Params, beacontypes.Params, streamtypes.Params, error) {
	g := sdk.WrapSDKContext(ctx)
	a := w.Ref.App
	e, err := a.EnterpriseKeeper.Params(g, &enttypes.QueryParamsRequest{})
	if err != nil {
		return enttypes.Params{}, wrkchaintypes.Params{}, beacontypes.Params{}, streamtypes.Params{}, err
	}
	wr, err := a.WrkchainKeeper.Params(g, &wrkchaintypes.QueryParamsRequest{})
	if err != nil {
		return enttypes.Params{}, wrkchaintypes.Params{}, beacontypes.Params{}, streamtypes.Params{}, err
	}
	b, err := a.BeaconKeeper.Params(g, &beacontypes.QueryParamsRequest{})
	if err != nil {
		return enttypes.Params{}, wrkchaintypes.Params{}, beacontypes.Params{}, streamtypes.Params{}, err
	}
	s, err := a.StreamKeeper.Params(g, &streamtypes.QueryParamsRequest{})
	if err != nil {
		return enttypes.Params{}, wrkchaintypes.Params{}, beacontypes.Params{}, streamtypes.Params{}, err
	}
	return e.Params, wr.Params, b.Params, s.Params, nil
}

func (m *monC16) AfterTx(w *World, tx *TxCtx) {
	// a parameter update executed directly by a transaction can only be an attack (authority is gov);
	// whatever happens, stored parameters must stay valid and equal to the model's
	for _, lf := range Flatten(tx.Msgs) {
		if mod, _ := invalidUpdate(lf.Msg); mod != "" {
			w.Probe("c16.direct-update-attempt")
			m.check(w, w.DCtx(), "tx")
			return
		}
	}
}

func (m *monC16) AfterEnd(w *World, _ abci.ResponseEndBlock) {
	ctx := w.DCtx()
	// proposals that passed in this block: none of their updates may be invalid
	if w.M.Gov.Passed > m.seenPassed {
		m.seenPassed = w.M.Gov.Passed
		for _, mod := range []string{"ent", "wrk", "bcn", "str"} {
			if w.M.ParamChanged[mod] == w.BlockIdx {
				if _, why := invalidUpdate(w.M.LastUpdate[mod]); why != "" {
					w.Violate("C16", "C16/invalid-update-accepted/"+mod+"/"+why, "governance executed %s parameter update breaking rule %q: %v", mod, why, w.M.LastUpdate[mod])
				} else {
					w.Probe("c16.valid-update-applied." + mod)
				}
			}
		}
	}
	for _, msg := range w.M.RejectedUpd {
		if mod, why := invalidUpdate(msg); mod != "" {
			if why == "" {
				w.Probe("c16.valid-update-in-failed-proposal." + mod)
			} else {
				w.Probe("c16.invalid-update-rejected." + mod)
			}
		}
	}
	w.M.RejectedUpd = nil
	m.check(w, ctx, "end")
}

func (m *monC16) AfterBlock(w *World) { m.check(w, w.CCtx(), "block") }

func (m *monC16) check(w *World, ctx sdk.Context, where string) {
	e, wr, b, s, err := m.storedParams(w, ctx)
	if err != nil {
		w.Violate("C16", "C16/params-query-error", "%v", err)
		return
	}
	if why := invalidEnt(e); why != "" {
		w.Violate("C16", "C16/stored-params-invalid/ent/"+why, "%s: enterprise parameters %+v", where, e)
	}
	if why := invalidReg(wr.FeeRegister, wr.FeeRecord, wr.FeePurchaseStorage, wr.Denom, wr.DefaultStorageLimit, wr.MaxStorageLimit); why != "" {
		w.Violate("C16", "C16/stored-params-invalid/wrk/"+why, "%s: wrkchain parameters %+v", where, wr)
	}
	if why := invalidReg(b.FeeRegister, b.FeeRecord, b.FeePurchaseStorage, b.Denom, b.DefaultStorageLimit, b.MaxStorageLimit); why != "" {
		w.Violate("C16", "C16/stored-params-invalid/bcn/"+why, "%s: beacon parameters %+v", where, b)
	}
	if why := invalidStream(s); why != "" {
		w.Violate("C16", "C16/stored-params-invalid/str/"+why, "%s: stream parameters %+v", where, s)
	}
	// stored = last successful update (a rejected update must leave them untouched, as a whole)
	me := w.M.Ent
	if e.EntSigners != me.SignersRaw || e.Denom != me.Denom || e.MinAccepts != me.MinAccepts || e.DecisionTimeLimit != me.Limit {
		w.Violate("C16", "C16/stored-params-differ-from-last-successful-update/ent", "%s: stored %+v, last successful update {%s %s %d %d}", where, e, me.SignersRaw, me.Denom, me.MinAccepts, me.Limit)
	}
	cmp := func(mod string, got RegParams, want RegParams) {
		if got != want {
			w.Violate("C16", "C16/stored-params-differ-from-last-successful-update/"+mod, "%s: stored %+v, last successful update %+v", where, got, want)
		}
	}
	cmp("wrk", RegParams{wr.FeeRegister, wr.FeeRecord, wr.FeePurchaseStorage, wr.Denom, wr.DefaultStorageLimit, wr.MaxStorageLimit}, w.M.Wrk.P)
	cmp("bcn", RegParams{b.FeeRegister, b.FeeRecord, b.FeePurchaseStorage, b.Denom, b.DefaultStorageLimit, b.MaxStorageLimit}, w.M.Bcn.P)
	if ratOfDec(s.ValidatorFee.String()).Cmp(w.M.Str.ValFee) != 0 {
		w.Violate("C16", "C16/stored-params-differ-from-last-successful-update/str", "%s: stored %s, last successful update %s", where, s.ValidatorFee, w.M.Str.ValFee.FloatString(18))
	}
}

var _ = fmt.Sprint
