package simnet

// mon_query.go — oracle for C20 (list queries complete, duplicate-free, consistent, read-only).
// Every query goes through ABCI Query on the gRPC paths, i.e. the public API, which serves the
// last committed state; expectations come from a snapshot of the reference models taken at the
// last block boundary.

import (
	"bytes"
	"fmt"
	"sort"
	"strings"

	abci "github.com/cometbft/cometbft/abci/types"
	"github.com/cosmos/cosmos-sdk/types/query"
	"github.com/cosmos/gogoproto/proto"

	beacontypes "github.com/unification-com/mainchain/x/beacon/types"
	enttypes "github.com/unification-com/mainchain/x/enterprise/types"
	streamtypes "github.com/unification-com/mainchain/x/stream/types"
	wrkchaintypes "github.com/unification-com/mainchain/x/wrkchain/types"
)

// abciQuery issues one gRPC query through ABCI Query (last committed state).
func abciQuery(w *World, path string, req proto.Message, resp proto.Message) error {
	return abciQueryAt(w, path, 0, req, resp)
}

// abciQueryAt asks at a given height (0 = latest committed).
func abciQueryAt(w *World, path string, height int64, req proto.Message, resp proto.Message) error {
	bz, err := proto.Marshal(req)
	if err != nil {
		return err
	}
	var r abci.ResponseQuery
	if p, _ := safely(func() { r = w.Ref.App.Query(abci.RequestQuery{Path: path, Data: bz, Height: height}) }); p != "" {
		return fmt.Errorf("query panicked: %s", p)
	}
	if r.Code != 0 {
		return fmt.Errorf("code %d: %s", r.Code, r.Log)
	}
	return proto.Unmarshal(r.Value, resp)
}

type monC20 struct {
	BaseMonitor
	snap *Models // models as of the last block boundary
}

func (m *monC20) Name() string  { return "C20" }
func (m *monC20) Init(w *World) { m.snap = w.M.Clone() }

func (m *monC20) AfterBlock(w *World) { m.snap = w.M.Clone() }

// item is one listed element: a stable identity and a canonical rendering.
type item struct {
	ID   string
	Repr string
	Ord  uint64
}

type pageFn func(pr *query.PageRequest) ([]item, *query.PageResponse, error)

// pageThrough drives a list query to exhaustion with the spec's paging mode.
func pageThrough(w *World, q *QuerySpec, f pageFn) ([]item, uint64, bool, error) {
	var all []item
	var key []byte
	offset := uint64(0)
	total := uint64(0)
	haveTotal := false
	q.overflowed = false
	limit := q.Limit
	if limit == 0 {
		limit = 3
	}
	for page := 0; page < 200; page++ {
		if page > 0 && q.Rest > 0 {
			limit = q.Rest
		}
		pr := &query.PageRequest{Limit: limit, Reverse: q.Rev}
		if o := map[bool]uint64{true: offset}[q.Offset]; o+limit < o || o+limit == ^uint64(0) {
			// offset+limit, or the "one more than the page" the paginator looks ahead for, exceeds 2^64-1
			q.overflowed = true
		}
		if q.Offset {
			pr.Offset = offset
			pr.CountTotal = q.Count
		} else {
			pr.Key = key
			pr.CountTotal = q.Count && page == 0
		}
		items, res, err := f(pr)
		if err != nil {
			return nil, 0, false, err
		}
		all = append(all, items...)
		if res != nil && q.Count && (q.Offset || page == 0) && page == 0 {
			total, haveTotal = res.Total, true
		}
		offset += uint64(len(items))
		if res == nil || len(res.NextKey) == 0 {
			break
		}
		if q.Offset && len(items) == 0 {
			break
		}
		key = res.NextKey
		w.Probe("c20.multi-page")
	}
	return all, total, haveTotal, nil
}

func (m *monC20) OnQuery(w *World, q *QuerySpec, mid bool) {
	if strings.HasPrefix(q.Kind, "supply.") || strings.HasPrefix(q.Kind, "store.") {
		return
	}
	if len(w.Log) == 0 {
		return
	}
	before := w.Ref.App.LastCommitID()
	digBefore := fullModuleDigest(w, w.CCtx())
	items, want, total, haveTotal, err := m.run(w, q)
	// its own classes: some page request's offset+limit (or the one item the paginator looks ahead)
	// does not fit 64 bits
	ov := ""
	if q.overflowed {
		ov = "/offset-plus-limit-overflows"
	}
	if err != nil {
		w.Violate("C20", "C20/"+q.Kind+"/query-error"+ov, "%s (%+v): %v", q.Kind, *q, err)
		return
	}
	where := "boundary"
	if mid {
		where = "mid-block"
		w.Probe("c20.mid-block")
	}
	w.Probe("c20." + q.Kind)
	// exactly once each, nothing else
	seen := map[string]int{}
	for _, it := range items {
		seen[it.ID]++
	}
	for _, id := range sortedKeys(seen) {
		if seen[id] > 1 {
			w.Violate("C20", "C20/"+q.Kind+"/duplicate-item"+ov, "%s %s: %s returned %d times (limit %d offset %v reverse %v filter %q)", where, q.Kind, id, seen[id], q.Limit, q.Offset, q.Rev, q.Filter)
		}
		if _, ok := want[id]; !ok {
			w.Violate("C20", "C20/"+q.Kind+"/unexpected-item", "%s %s: %s returned but does not match the filter / is not stored (filter %q)", where, q.Kind, id, q.Filter)
		}
	}
	for _, id := range sortedKeys(want) {
		if seen[id] == 0 {
			w.Violate("C20", "C20/"+q.Kind+"/missing-item"+ov, "%s %s: %s stored and matching but not returned (limit %d then %d, offset %v reverse %v filter %q; got %d of %d)", where, q.Kind, id, q.Limit, q.Rest, q.Offset, q.Rev, q.Filter, len(items), len(want))
			break
		}
	}
	// each item equals its point query
	for _, it := range items {
		if w, ok := want[it.ID]; ok && w != "" && w != it.Repr {
			m.violateMismatch(q, it, w)
		}
	}
	if haveTotal && total != uint64(len(want)) {
		w.Violate("C20", "C20/"+q.Kind+"/total-wrong", "%s %s: pagination total %d, matching items %d (filter %q)", where, q.Kind, total, len(want), q.Filter)
	}
	// ascending key order (descending when reversed)
	for i := 1; i < len(items); i++ {
		if (!q.Rev && items[i].Ord < items[i-1].Ord) || (q.Rev && items[i].Ord > items[i-1].Ord) {
			w.Violate("C20", "C20/"+q.Kind+"/order-wrong"+ov, "%s: %s after %s", q.Kind, items[i].ID, items[i-1].ID)
			break
		}
	}
	// read-only and repeatable
	items2, _, _, _, err2 := m.run(w, q)
	if err2 != nil || len(items2) != len(items) {
		w.Violate("C20", "C20/"+q.Kind+"/not-repeatable", "same query gave %d then %d items (%v)", len(items), len(items2), err2)
	} else {
		for i := range items {
			if items[i] != items2[i] {
				w.Violate("C20", "C20/"+q.Kind+"/not-repeatable", "item %d differs between two identical queries", i)
				break
			}
		}
	}
	after := w.Ref.App.LastCommitID()
	if !bytes.Equal(before.Hash, after.Hash) || before.Version != after.Version || fullModuleDigest(w, w.CCtx()) != digBefore {
		w.Violate("C20", "C20/"+q.Kind+"/query-modified-state", "state changed by a query")
	}
}

var c20w *World

func (m *monC20) violateMismatch(q *QuerySpec, it item, want string) {
	c20w.Violate("C20", "C20/"+q.Kind+"/item-differs-from-point-query", "%s lists %s as %s; point query gives %s", q.Kind, it.ID, trunc(it.Repr, 200), trunc(want, 200))
}

// run executes the list query and computes the expected set {id -> point-query rendering}.
func (m *monC20) run(w *World, q *QuerySpec) ([]item, map[string]string, uint64, bool, error) {
	c20w = w
	want := map[string]string{}
	actor := AddrOf(w.Actors, q.A).String()
	// sp: how the request spells an address (filters name accounts; the upper-case bech32 spelling
	// names the same account)
	sp := func(a string) string {
		if q.Up {
			return strings.ToUpper(a)
		}
		return a
	}
	var f pageFn
	switch q.Kind {
	case "ent.orders":
		req := &enttypes.QueryEnterpriseUndPurchaseOrdersRequest{}
		if q.Filter == "purchaser" || q.Filter == "both" {
			req.Purchaser = sp(actor)
		}
		if q.Filter == "status" || q.Filter == "both" {
			req.Status = enttypes.PurchaseOrderStatus(1 + q.A%4)
		}
		for _, id := range m.snap.Ent.orderIds() {
			o := m.snap.Ent.Orders[id]
			if req.Purchaser != "" && o.Purchaser != actor {
				continue
			}
			if req.Status != 0 && o.Status != int(req.Status) {
				continue
			}
			var pr enttypes.QueryEnterpriseUndPurchaseOrderResponse
			if err := abciQuery(w, "/mainchain.enterprise.v1.Query/EnterpriseUndPurchaseOrder", &enttypes.QueryEnterpriseUndPurchaseOrderRequest{PurchaseOrderId: id}, &pr); err != nil {
				want[fmt.Sprint(id)] = ""
				continue
			}
			want[fmt.Sprint(id)] = pr.PurchaseOrder.String()
		}
		f = func(pr *query.PageRequest) ([]item, *query.PageResponse, error) {
			r := *req
			r.Pagination = pr
			var resp enttypes.QueryEnterpriseUndPurchaseOrdersResponse
			if err := abciQuery(w, "/mainchain.enterprise.v1.Query/EnterpriseUndPurchaseOrders", &r, &resp); err != nil {
				return nil, nil, err
			}
			var out []item
			for _, o := range resp.PurchaseOrders {
				out = append(out, item{fmt.Sprint(o.Id), o.String(), o.Id})
			}
			return out, resp.Pagination, nil
		}
	case "ent.whitelist":
		for _, a := range sortedKeys(m.snap.Ent.Whitelist) {
			// the corresponding point query must agree
			var pr enttypes.QueryWhitelistedResponse
			if err := abciQuery(w, "/mainchain.enterprise.v1.Query/Whitelisted", &enttypes.QueryWhitelistedRequest{Address: a}, &pr); err != nil || !pr.Whitelisted {
				want[a] = "point query says not whitelisted"
				continue
			}
			want[a] = a
		}
		// and must not report an address the list does not hold
		if _, in := m.snap.Ent.Whitelist[actor]; !in {
			var pr enttypes.QueryWhitelistedResponse
			if err := abciQuery(w, "/mainchain.enterprise.v1.Query/Whitelisted", &enttypes.QueryWhitelistedRequest{Address: actor}, &pr); err == nil && pr.Whitelisted {
				w.Violate("C20", "C20/ent.whitelist/point-query-reports-unlisted-address", "Whitelisted(%s)=true but the address is not on the whitelist", actor)
			}
		}
		f = func(pr *query.PageRequest) ([]item, *query.PageResponse, error) {
			var resp enttypes.QueryWhitelistResponse
			if err := abciQuery(w, "/mainchain.enterprise.v1.Query/Whitelist", &enttypes.QueryWhitelistRequest{}, &resp); err != nil {
				return nil, nil, err
			}
			var out []item
			for _, a := range resp.Addresses {
				out = append(out, item{a, a, 0})
			}
			return out, nil, nil
		}
	case "wrk.list", "bcn.list":
		rm := m.snap.Wrk
		if q.Kind == "bcn.list" {
			rm = m.snap.Bcn
		}
		owner, moniker := "", ""
		if q.Filter == "owner" || q.Filter == "both" {
			owner = actor
		}
		if q.Filter == "moniker" || q.Filter == "both" {
			// an existing moniker when there is one
			if ids := rm.ids(); len(ids) > 0 {
				moniker = rm.Regs[ids[q.A%len(ids)]].Meta[0]
			} else {
				moniker = "nope"
			}
		}
		for _, id := range rm.ids() {
			g := rm.Regs[id]
			if owner != "" && g.Owner != owner || moniker != "" && g.Meta[0] != moniker {
				continue
			}
			if id == 0 {
				continue
			}
			if q.Kind == "wrk.list" {
				var pr wrkchaintypes.QueryWrkChainResponse
				if err := abciQuery(w, "/mainchain.wrkchain.v1.Query/WrkChain", &wrkchaintypes.QueryWrkChainRequest{WrkchainId: id}, &pr); err != nil || pr.Wrkchain == nil {
					want[fmt.Sprint(id)] = ""
					continue
				}
				want[fmt.Sprint(id)] = pr.Wrkchain.String()
			} else {
				var pr beacontypes.QueryBeaconResponse
				if err := abciQuery(w, "/mainchain.beacon.v1.Query/Beacon", &beacontypes.QueryBeaconRequest{BeaconId: id}, &pr); err != nil || pr.Beacon == nil {
					want[fmt.Sprint(id)] = ""
					continue
				}
				want[fmt.Sprint(id)] = pr.Beacon.String()
			}
		}
		f = func(pr *query.PageRequest) ([]item, *query.PageResponse, error) {
			var out []item
			if q.Kind == "wrk.list" {
				var resp wrkchaintypes.QueryWrkChainsFilteredResponse
				if err := abciQuery(w, "/mainchain.wrkchain.v1.Query/WrkChainsFiltered", &wrkchaintypes.QueryWrkChainsFilteredRequest{Owner: sp(owner), Moniker: moniker, Pagination: pr}, &resp); err != nil {
					return nil, nil, err
				}
				for _, c := range resp.Wrkchains {
					out = append(out, item{fmt.Sprint(c.WrkchainId), c.String(), c.WrkchainId})
				}
				return out, resp.Pagination, nil
			}
			var resp beacontypes.QueryBeaconsFilteredResponse
			if err := abciQuery(w, "/mainchain.beacon.v1.Query/BeaconsFiltered", &beacontypes.QueryBeaconsFilteredRequest{Owner: sp(owner), Moniker: moniker, Pagination: pr}, &resp); err != nil {
				return nil, nil, err
			}
			for _, c := range resp.Beacons {
				out = append(out, item{fmt.Sprint(c.BeaconId), c.String(), c.BeaconId})
			}
			return out, resp.Pagination, nil
		}
	case "str.all", "str.by_sender", "str.by_receiver":
		// pick the filter address among parties of existing streams when possible
		addr := actor
		keys := m.snap.Str.keys()
		if len(keys) > 0 && q.Filter != "" {
			st := m.snap.Str.Streams[keys[q.A%len(keys)]]
			if q.Kind == "str.by_sender" {
				addr = st.Sender
			} else {
				addr = st.Receiver
			}
		}
		for _, k := range keys {
			st := m.snap.Str.Streams[k]
			if q.Kind == "str.by_sender" && st.Sender != addr || q.Kind == "str.by_receiver" && st.Receiver != addr {
				continue
			}
			var pr streamtypes.QueryStreamByReceiverSenderResponse
			id := st.Receiver + "<-" + st.Sender
			if err := abciQuery(w, "/mainchain.stream.v1.Query/StreamByReceiverSender", &streamtypes.QueryStreamByReceiverSenderRequest{ReceiverAddr: st.Receiver, SenderAddr: st.Sender}, &pr); err != nil || pr.Stream.Stream == nil {
				want[id] = ""
				continue
			}
			want[id] = pr.Stream.Stream.String()
		}
		f = func(pr *query.PageRequest) ([]item, *query.PageResponse, error) {
			var streams []*streamtypes.StreamResult
			var pres *query.PageResponse
			switch q.Kind {
			case "str.all":
				var resp streamtypes.QueryStreamsResponse
				if err := abciQuery(w, "/mainchain.stream.v1.Query/Streams", &streamtypes.QueryStreamsRequest{Pagination: pr}, &resp); err != nil {
					return nil, nil, err
				}
				streams, pres = resp.Streams, resp.Pagination
			case "str.by_sender":
				var resp streamtypes.QueryAllStreamsForSenderResponse
				if err := abciQuery(w, "/mainchain.stream.v1.Query/AllStreamsForSender", &streamtypes.QueryAllStreamsForSenderRequest{SenderAddr: sp(addr), Pagination: pr}, &resp); err != nil {
					return nil, nil, err
				}
				streams, pres = resp.Streams, resp.Pagination
			default:
				var resp streamtypes.QueryAllStreamsForReceiverResponse
				if err := abciQuery(w, "/mainchain.stream.v1.Query/AllStreamsForReceiver", &streamtypes.QueryAllStreamsForReceiverRequest{ReceiverAddr: sp(addr), Pagination: pr}, &resp); err != nil {
					return nil, nil, err
				}
				streams, pres = resp.Streams, resp.Pagination
			}
			var out []item
			for _, s := range streams {
				repr := ""
				if s.Stream != nil {
					repr = s.Stream.String()
				}
				out = append(out, item{s.Receiver + "<-" + s.Sender, repr, 0})
			}
			return out, pres, nil
		}
	default:
		return nil, nil, 0, false, nil
	}
	items, total, have, err := pageThrough(w, q, f)
	if q.Kind == "ent.whitelist" {
		sort.Slice(items, func(i, j int) bool { return items[i].ID < items[j].ID })
	}
	return items, want, total, have, err
}
