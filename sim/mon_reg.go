package simnet

// mon_reg.go — oracles for the WRKChain/BEACON registry properties C06, C07, C08, C09.

import (
	"fmt"
	abci "github.com/cometbft/cometbft/abci/types"
	"math/big"
	"strings"

	sdk "github.com/cosmos/cosmos-sdk/types"
	"github.com/cosmos/cosmos-sdk/x/group"

	beacontypes "github.com/unification-com/mainchain/x/beacon/types"
	wrkchaintypes "github.com/unification-com/mainchain/x/wrkchain/types"
)

// regObs is what can be observed about one registration through the public query API.
type regObs struct {
	Found    bool
	Meta     []string
	Owner    string
	RegTime  uint64
	Num      uint64 // number in state
	First    uint64 // lowest height / first id in state
	Last     uint64 // last height / last timestamp id
	Limit    uint64
	Used     uint64
	Max      uint64
	MaxPurch uint64
	StoreErr error
}

type recObs struct {
	Found  bool
	Fields []string
	Time   uint64
	Key    uint64
	Owner  string
	Err    error
}

type regView struct{ kind string }

func (v regView) model(w *World) *RegModel {
	if v.kind == "wrk" {
		return w.M.Wrk
	}
	return w.M.Bcn
}

func (v regView) obs(w *World, ctx sdk.Context, id uint64) regObs {
	g := sdk.WrapSDKContext(ctx)
	var o regObs
	if v.kind == "wrk" {
		k := w.Ref.App.WrkchainKeeper
		r, err := k.WrkChain(g, &wrkchaintypes.QueryWrkChainRequest{WrkchainId: id})
		if err != nil || r.Wrkchain == nil {
			return o
		}
		c := r.Wrkchain
		o = regObs{Found: true, Meta: []string{c.Moniker, c.Name, c.Genesis, c.Type}, Owner: canonAddr(c.Owner), RegTime: c.RegTime, Num: c.NumBlocks, First: c.LowestHeight, Last: c.Lastblock}
		s, err := k.WrkChainStorage(g, &wrkchaintypes.QueryWrkChainStorageRequest{WrkchainId: id})
		if err != nil {
			o.StoreErr = err
			return o
		}
		o.Limit, o.Used, o.Max, o.MaxPurch = s.CurrentLimit, s.CurrentUsed, s.Max, s.MaxPurchasable
		return o
	}
	k := w.Ref.App.BeaconKeeper
	r, err := k.Beacon(g, &beacontypes.QueryBeaconRequest{BeaconId: id})
	if err != nil || r.Beacon == nil {
		return o
	}
	c := r.Beacon
	o = regObs{Found: true, Meta: []string{c.Moniker, c.Name}, Owner: canonAddr(c.Owner), RegTime: c.RegTime, Num: c.NumInState, First: c.FirstIdInState, Last: c.LastTimestampId}
	s, err := k.BeaconStorage(g, &beacontypes.QueryBeaconStorageRequest{BeaconId: id})
	if err != nil {
		o.StoreErr = err
		return o
	}
	o.Limit, o.Used, o.Max, o.MaxPurch = s.CurrentLimit, s.CurrentUsed, s.Max, s.MaxPurchasable
	return o
}

func (v regView) rec(w *World, ctx sdk.Context, id, key uint64) recObs {
	g := sdk.WrapSDKContext(ctx)
	if v.kind == "wrk" {
		r, err := w.Ref.App.WrkchainKeeper.WrkChainBlock(g, &wrkchaintypes.QueryWrkChainBlockRequest{WrkchainId: id, Height: key})
		if err != nil || r.Block == nil {
			return recObs{Err: err}
		}
		b := r.Block
		return recObs{Found: true, Fields: []string{b.Blockhash, b.Parenthash, b.Hash1, b.Hash2, b.Hash3}, Time: b.SubTime, Key: b.Height, Owner: canonAddr(r.Owner)}
	}
	r, err := w.Ref.App.BeaconKeeper.BeaconTimestamp(g, &beacontypes.QueryBeaconTimestampRequest{BeaconId: id, TimestampId: key})
	if err != nil || r.Timestamp == nil {
		return recObs{Err: err}
	}
	t := r.Timestamp
	return recObs{Found: true, Fields: []string{t.Hash}, Time: t.SubmitTime, Key: t.TimestampId, Owner: canonAddr(r.Owner)}
}

// keysInState lists the record keys actually present in state, in store order.
func (v regView) keysInState(w *World, ctx sdk.Context, id uint64) []uint64 {
	var out []uint64
	if v.kind == "wrk" {
		for _, b := range w.Ref.App.WrkchainKeeper.GetAllWrkChainBlockHashes(ctx, id) {
			out = append(out, b.Height)
		}
		return out
	}
	for _, b := range w.Ref.App.BeaconKeeper.GetAllBeaconTimestamps(ctx, id) {
		out = append(out, b.TimestampId)
	}
	return out
}

// params: the module parameters in force - those of the last adopted update (genesis, or a
// proposal that passed and executed as a whole), as the models follow them. What the node answers
// when asked (queried) is itself under test (C16) and is used only when there is no model.
func (v regView) params(w *World, ctx sdk.Context) (RegParams, error) {
	if w.M != nil && v.model(w) != nil {
		return v.model(w).P, nil
	}
	return v.queried(w, ctx)
}

func (v regView) queried(w *World, ctx sdk.Context) (RegParams, error) {
	g := sdk.WrapSDKContext(ctx)
	if v.kind == "wrk" {
		r, err := w.Ref.App.WrkchainKeeper.Params(g, &wrkchaintypes.QueryParamsRequest{})
		if err != nil {
			return RegParams{}, err
		}
		p := r.Params
		return RegParams{p.FeeRegister, p.FeeRecord, p.FeePurchaseStorage, p.Denom, p.DefaultStorageLimit, p.MaxStorageLimit}, nil
	}
	r, err := w.Ref.App.BeaconKeeper.Params(g, &beacontypes.QueryParamsRequest{})
	if err != nil {
		return RegParams{}, err
	}
	p := r.Params
	return RegParams{p.FeeRegister, p.FeeRecord, p.FeePurchaseStorage, p.Denom, p.DefaultStorageLimit, p.MaxStorageLimit}, nil
}

func (v regView) highest(w *World, ctx sdk.Context) uint64 {
	if v.kind == "wrk" {
		id, _ := w.Ref.App.WrkchainKeeper.GetHighestWrkChainID(ctx)
		return id
	}
	id, _ := w.Ref.App.BeaconKeeper.GetHighestBeaconID(ctx)
	return id
}

var regViews = []regView{{"wrk"}, {"bcn"}}

func regStoreDigests(w *World, ctx sdk.Context) string {
	return storeDigest(w, ctx, wrkchaintypes.StoreKey, nil) + "." + storeDigest(w, ctx, beacontypes.StoreKey, nil)
}

// touchedRegs returns (kind,id) pairs named by registry messages of the tx.
func touchedRegs(tx *TxCtx) map[string]bool {
	out := map[string]bool{}
	for _, lf := range Flatten(tx.Msgs) {
		switch x := lf.Msg.(type) {
		case *wrkchaintypes.MsgRecordWrkChainBlock:
			out[fmt.Sprintf("wrk/%d", x.WrkchainId)] = true
		case *wrkchaintypes.MsgPurchaseWrkChainStateStorage:
			out[fmt.Sprintf("wrk/%d", x.WrkchainId)] = true
		case *beacontypes.MsgRecordBeaconTimestamp:
			out[fmt.Sprintf("bcn/%d", x.BeaconId)] = true
		case *beacontypes.MsgPurchaseBeaconStateStorage:
			out[fmt.Sprintf("bcn/%d", x.BeaconId)] = true
		}
	}
	return out
}

// ---------------------------------------------------------------------------------------------
// C06 — admitted only with the exact parameterised fee

type monC06 struct{ BaseMonitor }

func (m *monC06) Name() string { return "C06" }

// feeOracle: Σ over every WRKChain/BEACON operation, however nested, of the applicable fee, from
// the parameters the chain reports, in big-integer arithmetic. Returns sums per fee denomination.
func feeOracle(w *World, ctx sdk.Context, msgs []sdk.Msg) (map[string]*big.Int, int, error) {
	s, n, _, err := feeOracleDeep(w, ctx, msgs)
	return s, n, err
}

// feeOracleDeep also reports how many of the operations are reached through an x/group proposal.
func feeOracleDeep(w *World, ctx sdk.Context, msgs []sdk.Msg) (map[string]*big.Int, int, int, error) {
	leaves, viaGroup := FlattenDeep(msgs)
	s, n, err := feeOracleLeaves(w, ctx, leaves)
	if n == 0 {
		viaGroup = 0
	}
	return s, n, viaGroup, err
}

func feeOracleLeaves(w *World, ctx sdk.Context, leaves []Leaf) (map[string]*big.Int, int, error) {
	wp, err := regView{"wrk"}.params(w, ctx)
	if err != nil {
		return nil, 0, err
	}
	bp, err := regView{"bcn"}.params(w, ctx)
	if err != nil {
		return nil, 0, err
	}
	sum := map[string]*big.Int{}
	add := func(d string, v *big.Int) {
		if sum[d] == nil {
			sum[d] = new(big.Int)
		}
		sum[d].Add(sum[d], v)
	}
	u := func(x uint64) *big.Int { return new(big.Int).SetUint64(x) }
	n := 0
	for _, lf := range leaves {
		switch x := lf.Msg.(type) {
		case *wrkchaintypes.MsgRegisterWrkChain:
			add(wp.Denom, u(wp.FeeReg))
			n++
		case *wrkchaintypes.MsgRecordWrkChainBlock:
			add(wp.Denom, u(wp.FeeRec))
			n++
		case *wrkchaintypes.MsgPurchaseWrkChainStateStorage:
			add(wp.Denom, new(big.Int).Mul(u(wp.FeePur), u(x.Number)))
			n++
		case *beacontypes.MsgRegisterBeacon:
			add(bp.Denom, u(bp.FeeReg))
			n++
		case *beacontypes.MsgRecordBeaconTimestamp:
			add(bp.Denom, u(bp.FeeRec))
			n++
		case *beacontypes.MsgPurchaseBeaconStateStorage:
			add(bp.Denom, new(big.Int).Mul(u(bp.FeePur), u(x.Number)))
			n++
		}
	}
	return sum, n, nil
}

func (m *monC06) AfterCheck(w *World, tx *TxCtx) {
	if tx.Check == nil {
		return
	}
	ctx := w.Ref.App.BaseApp.NewContext(true, w.Hdr)
	want, n, viaGroup, err := feeOracleDeep(w, ctx, tx.Msgs)
	if err != nil {
		w.Violate("C06", "C06/params-query-error", "%v", err)
		return
	}
	if n == 0 {
		return
	}
	if viaGroup > 0 {
		// operations executed through an x/group proposal (EXEC_TRY) inside this transaction
		w.Probe("c06.via-group-proposal")
		if !groupWouldExecute(w, tx.Msgs) {
			// unknown policy or a proposer who is not its member: the proposal would not execute
			w.Probe("c06.via-group-proposal-that-cannot-execute")
			return
		}
		if tx.Check.Code != 0 {
			w.Probe("c06.rejected")
			return
		}
		for _, d := range sortedDenoms(want) {
			if offered := tx.Fee.AmountOf(d).BigInt(); offered.Cmp(want[d]) != 0 {
				w.Violate("C06", "C06/admitted-with-wrong-fee/group-proposal", "CheckTx admitted %s offering %q; the %d module operations it executes through a group proposal cost %s%s", kindsOf(tx), tx.Fee.String(), n, want[d], d)
			}
		}
		return
	}
	nested := !hasRegistryMsg(tx.Msgs)
	if tx.Check.Code != 0 {
		w.Probe("c06.rejected")
		return
	}
	w.Probe("c06.admitted")
	tag := "top-level"
	if nested {
		tag = "nested"
	}
	if _, re := tx.Stash["recheck"]; re {
		// still admitted by the re-check the mempool runs after every commit
		tag += "-recheck"
		w.Probe("c06.admitted-on-recheck")
	}
	for _, d := range sortedDenoms(want) {
		offered := tx.Fee.AmountOf(d).BigInt()
		if offered.Cmp(want[d]) != 0 {
			rel := "under"
			if offered.Cmp(want[d]) > 0 {
				rel = "over"
			}
			extra := ""
			if len(tx.Fee) > 1 {
				extra = "/extra-denoms"
			}
			w.Violate("C06", fmt.Sprintf("C06/admitted-with-wrong-fee/%s/%s%s", tag, rel, extra), "CheckTx admitted %s offering %q; the %d module operations cost %s%s", kindsOf(tx), tx.Fee.String(), n, want[d], d)
			continue
		}
		// affordability: liquid + locked >= S (pre-admission figures stashed by the executor)
		if len(tx.Granter) == 0 {
			sp, _ := tx.Stash["check.spendable"].(sdk.Coins)
			lk, _ := tx.Stash["check.locked"].(sdk.Coin)
			have := sp.AmountOf(d).BigInt()
			if lk.Denom == d {
				have.Add(have, lk.Amount.BigInt())
			}
			if have.Cmp(want[d]) < 0 {
				w.Violate("C06", "C06/admitted-unaffordable/"+tag, "CheckTx admitted %s: fee %s%s but payer has spendable %s + locked %s", kindsOf(tx), want[d], d, sp.AmountOf(d), lk)
			}
		}
	}
}

// ---------------------------------------------------------------------------------------------
// C07 — records are append-only and tamper-proof

type monC07 struct {
	BaseMonitor
	pre string
}

func (m *monC07) AfterEnd(w *World, _ abci.ResponseEndBlock) { govExecutedMustFail(w, "C07", c07Rules) }
func (m *monC07) Name() string                               { return "C07" }
func (m *monC07) Init(w *World)                              { w.armedShadow = w.armedShadow || w.PropOverride == "C07" }

var c07Rules = map[string]bool{"wrk.record/height-not-above-last": true, "wrk.record/unknown-id": true, "wrk.record/not-owner": true, "bcn.record/unknown-id": true, "bcn.record/not-owner": true}

func (m *monC07) BeforeTx(w *World, tx *TxCtx) { m.pre = regStoreDigests(w, w.DCtx()) }

func (m *monC07) AfterTx(w *World, tx *TxCtx) {
	ctx := w.DCtx()
	for _, e := range expectationsOf(tx) {
		if e.MustFail && c07Rules[e.Rule] {
			w.Probe("c07.mustfail." + e.Rule)
			if tx.Resp.Code == 0 {
				w.Violate("C07", "C07/accepted/"+e.Rule, "tx %d/%d (%s) succeeded although %s", tx.Block, tx.Idx, kindsOf(tx), e.Rule)
			}
		}
	}
	if tx.Resp.Code != 0 {
		if regStoreDigests(w, ctx) != m.pre {
			w.Violate("C07", "C07/rejected-submission-changed-state", "tx %d/%d (%s, code %d) failed but WRKChain/BEACON state changed", tx.Block, tx.Idx, kindsOf(tx), tx.Resp.Code)
		}
		return
	}
	t := touchedRegs(tx)
	for _, v := range regViews {
		for _, id := range v.model(w).ids() {
			if t[fmt.Sprintf("%s/%d", v.kind, id)] {
				m.checkReg(w, ctx, v, id, "tx")
			}
		}
	}
}

func (m *monC07) AfterBlock(w *World) {
	ctx := w.CCtx()
	for _, v := range regViews {
		for _, id := range v.model(w).ids() {
			m.checkReg(w, ctx, v, id, "block")
		}
	}
}

func (m *monC07) checkReg(w *World, ctx sdk.Context, v regView, id uint64, where string) {
	g := v.model(w).Regs[id]
	if id == 0 {
		return
	}
	for _, r := range g.Kept {
		o := v.rec(w, ctx, id, r.Key)
		w.Probe("c07.record-read-back")
		if !o.Found {
			w.Violate("C07", "C07/"+v.kind+"/retained-record-not-found", "%s: %s %d record %d accepted earlier and within the limit is not found (%v)", where, v.kind, id, r.Key, o.Err)
			continue
		}
		if strings.Join(o.Fields, "|") != strings.Join(r.Fields, "|") || o.Key != r.Key || o.Time != r.Time {
			w.Violate("C07", "C07/"+v.kind+"/record-altered", "%s: %s %d record %d: submitted %v@%d, query returns %v@%d key %d", where, v.kind, id, r.Key, r.Fields, r.Time, o.Fields, o.Time, o.Key)
		}
		if o.Owner != g.Owner {
			w.Violate("C07", "C07/"+v.kind+"/record-owner-wrong", "%s: %s %d record %d reports owner %s, registered owner %s", where, v.kind, id, r.Key, o.Owner, g.Owner)
		}
	}
	for _, k := range g.Pruned {
		if k == 0 {
			continue
		}
		if o := v.rec(w, ctx, id, k); o.Found {
			// a pruned key may legitimately be live again only if it was re-recorded (never for wrkchain: heights rise)
			relive := false
			for _, r := range g.Kept {
				if r.Key == k {
					relive = true
				}
			}
			if !relive {
				w.Violate("C07", "C07/"+v.kind+"/pruned-record-still-served", "%s: %s %d record %d was pruned by the retention limit but is still returned", where, v.kind, id, k)
			}
		}
		w.Probe("c07.pruned-checked")
	}
	if v.kind == "bcn" {
		// identifiers consecutive from 1 in submission order
		for i, r := range g.Kept {
			want := g.Total - uint64(len(g.Kept)) + uint64(i) + 1
			if r.Key != want {
				w.Violate("C07", "C07/bcn/ids-not-consecutive", "beacon %d kept record %d has id %d, expected %d", id, i, r.Key, want)
			}
		}
		o := v.obs(w, ctx, id)
		if o.Found && o.Last != g.Total {
			w.Violate("C07", "C07/bcn/ids-not-consecutive", "beacon %d last timestamp id %d after %d accepted submissions", id, o.Last, g.Total)
		}
	}
}

// ---------------------------------------------------------------------------------------------
// C08 — retention and limits

type monC08 struct{ BaseMonitor }

func (m *monC08) AfterEnd(w *World, _ abci.ResponseEndBlock) { govExecutedMustFail(w, "C08", c08Rules) }
func (m *monC08) Name() string                               { return "C08" }
func (m *monC08) Init(w *World) {
	// under the C08 check proper, exports are also imported and the counters re-checked there
	w.armedC08 = w.PropOverride == "C08" || w.PropOverride == "C18"
	if w.PropOverride == "C08" {
		w.armedShadow = true
	}
}

var c08Rules = map[string]bool{"wrk.purchase/above-max": true, "bcn.purchase/above-max": true, "wrk.purchase/not-owner": true, "bcn.purchase/not-owner": true, "wrk.purchase/unknown-id": true, "bcn.purchase/unknown-id": true}

func (m *monC08) AfterTx(w *World, tx *TxCtx) {
	ctx := w.DCtx()
	for _, e := range expectationsOf(tx) {
		if e.MustFail && c08Rules[e.Rule] {
			w.Probe("c08.mustfail." + e.Rule)
			if tx.Resp.Code == 0 {
				nest := ""
				if !hasRegistryMsg(tx.Msgs) {
					nest = "/nested"
				}
				w.Violate("C08", "C08/accepted/"+e.Rule+nest, "tx %d/%d (%s) succeeded although %s", tx.Block, tx.Idx, kindsOf(tx), e.Rule)
			}
		}
	}
	if tx.Resp.Code != 0 {
		return
	}
	t := touchedRegs(tx)
	for _, v := range regViews {
		for _, id := range v.model(w).ids() {
			if t[fmt.Sprintf("%s/%d", v.kind, id)] {
				m.checkReg(w, ctx, v, id, "tx")
			}
		}
	}
}

func (m *monC08) AfterBlock(w *World) {
	ctx := w.CCtx()
	for _, v := range regViews {
		for _, id := range v.model(w).ids() {
			m.checkReg(w, ctx, v, id, "block")
		}
	}
}

func (m *monC08) checkReg(w *World, ctx sdk.Context, v regView, id uint64, where string) {
	if id == 0 {
		return
	}
	rm := v.model(w)
	g := rm.Regs[id]
	o := v.obs(w, ctx, id)
	if !o.Found {
		w.Violate("C08", "C08/"+v.kind+"/registration-missing", "%s %d of the model not found", v.kind, id)
		return
	}
	if o.StoreErr != nil {
		w.Violate("C08", "C08/"+v.kind+"/storage-query-error", "%s %d: %v", v.kind, id, o.StoreErr)
		return
	}
	// the limit: default at registration + Σ purchased, as integers
	if !g.Limit.IsUint64() || g.Limit.Uint64() != o.Limit {
		cl := "C08/" + v.kind + "/limit-differs"
		if !g.Limit.IsUint64() || g.Limit.Cmp(new(big.Int).SetUint64(o.Limit)) > 0 {
			cl = "C08/" + v.kind + "/limit-not-increased-by-purchased-number"
		}
		w.Violate("C08", cl, "%s: %s %d in-state limit %d, default-at-registration plus purchases = %s", where, v.kind, id, o.Limit, g.Limit)
		return
	}
	// reported capacity
	p, err := v.params(w, ctx)
	if err == nil {
		wantMP := uint64(0)
		if p.MaxLimit > o.Limit {
			wantMP = p.MaxLimit - o.Limit
		}
		if o.Max != p.MaxLimit || o.MaxPurch != wantMP {
			cl := "C08/" + v.kind + "/max-purchasable-wrong"
			if p.MaxLimit < o.Limit {
				cl += "/max-below-limit"
			}
			w.Violate("C08", cl, "%s: %s %d storage query reports max %d purchasable %d; maximum in force %d, limit %d => %d", where, v.kind, id, o.Max, o.MaxPurch, p.MaxLimit, o.Limit, wantMP)
		}
	}
	// what is actually held
	keys := v.keysInState(w, ctx, id)
	if len(keys) != len(g.Kept) {
		w.Violate("C08", "C08/"+v.kind+"/retained-set-differs", "%s: %s %d holds %d records %v, model (newest min(total %d, limit %s)) %d", where, v.kind, id, len(keys), headU(keys, 12), g.Total, g.Limit, len(g.Kept))
	} else {
		for i := range keys {
			if keys[i] != g.Kept[i].Key {
				w.Violate("C08", "C08/"+v.kind+"/retained-set-differs", "%s: %s %d holds %v, model %v", where, v.kind, id, headU(keys, 12), keptKeys(g, 12))
				break
			}
		}
	}
	if uint64(len(keys)) > o.Limit {
		w.Violate("C08", "C08/"+v.kind+"/more-records-than-limit", "%s %d holds %d records with limit %d", v.kind, id, len(keys), o.Limit)
	}
	// counters match what can be queried
	first := uint64(0)
	if len(keys) > 0 {
		first = keys[0]
	}
	if o.Num != uint64(len(keys)) || o.Used != uint64(len(keys)) || (len(keys) > 0 && o.First != first) || o.Last != g.LastKey {
		w.Violate("C08", "C08/"+v.kind+"/counters-differ-from-state", "%s: %s %d reports num=%d used=%d first=%d last=%d; state holds %d records first=%d, last accepted %d", where, v.kind, id, o.Num, o.Used, o.First, o.Last, len(keys), first, g.LastKey)
	}
	if len(g.Pruned) > 0 {
		w.Probe("c08.pruned")
	}
	w.Probe("c08.reg-checked")
}

func headU(x []uint64, n int) []uint64 {
	if len(x) > n {
		return x[:n]
	}
	return x
}

func keptKeys(g *Reg, n int) []uint64 {
	var out []uint64
	for i, r := range g.Kept {
		if i >= n {
			break
		}
		out = append(out, r.Key)
	}
	return out
}

// ---------------------------------------------------------------------------------------------
// C09 — unique sequential ids, immutable sole-writer owner

type monC09 struct {
	BaseMonitor
	meta map[string]string // "<kind>/<id>" -> metadata digest
	pre  string
}

func (m *monC09) AfterEnd(w *World, _ abci.ResponseEndBlock) { govExecutedMustFail(w, "C09", c09Rules) }
func (m *monC09) Name() string                               { return "C09" }
func (m *monC09) Init(w *World) {
	m.meta = map[string]string{}
	w.armedShadow = w.armedShadow || w.PropOverride == "C09"
}

var c09Rules = map[string]bool{"wrk.record/unknown-id": true, "wrk.record/not-owner": true, "bcn.record/unknown-id": true, "bcn.record/not-owner": true,
	"wrk.purchase/not-owner": true, "bcn.purchase/not-owner": true, "wrk.purchase/unknown-id": true, "bcn.purchase/unknown-id": true}

func (m *monC09) BeforeTx(w *World, tx *TxCtx) { m.pre = regStoreDigests(w, w.DCtx()) }

func (m *monC09) AfterTx(w *World, tx *TxCtx) {
	ctx := w.DCtx()
	hit := false
	for _, e := range expectationsOf(tx) {
		if e.MustFail && c09Rules[e.Rule] {
			hit = true
			w.Probe("c09.mustfail." + e.Rule)
			if tx.Resp.Code == 0 {
				w.Violate("C09", "C09/accepted/"+e.Rule, "tx %d/%d (%s) succeeded although %s", tx.Block, tx.Idx, kindsOf(tx), e.Rule)
			}
		}
	}
	// the chain telling the registered owner that it is not the owner (or that its registration does
	// not exist) contradicts "stores the signer as owner; only that owner can record / purchase"
	if exps := expectationsOf(tx); len(exps) == 1 && !exps[0].MustFail && tx.AntePassed && tx.Resp.Code != 0 {
		if lv, _ := tx.Stash["leaves"].([]Leaf); len(lv) == 1 {
			k := msgKind(lv[0].Msg)
			if (strings.HasSuffix(k, ".record") || strings.HasSuffix(k, ".purchase")) && (tx.Resp.Codespace == "wrkchain" || tx.Resp.Codespace == "beacon") && (tx.Resp.Code == 204 || tx.Resp.Code == 201) {
				w.Violate("C09", fmt.Sprintf("C09/owner-rejected/%s/code-%d", k, tx.Resp.Code), "tx %d/%d (%s) by the registered owner of an existing registration was rejected: %s", tx.Block, tx.Idx, k, trunc(tx.Resp.Log, 120))
			}
		}
	}
	if hit && tx.Resp.Code != 0 && regStoreDigests(w, ctx) != m.pre {
		w.Violate("C09", "C09/rejected-attempt-changed-state", "tx %d/%d (%s) was rejected but WRKChain/BEACON state changed", tx.Block, tx.Idx, kindsOf(tx))
	}
	m.checkAll(w, ctx)
}

func (m *monC09) AfterBlock(w *World) { m.checkAll(w, w.CCtx()) }

func (m *monC09) checkAll(w *World, ctx sdk.Context) {
	for _, v := range regViews {
		rm := v.model(w)
		if h := v.highest(w, ctx); h != rm.NextID {
			w.Violate("C09", "C09/"+v.kind+"/next-id-differs", "%s next id on chain %d, after the model's registrations %d", v.kind, h, rm.NextID)
		}
		for _, id := range rm.ids() {
			if id == 0 {
				continue
			}
			g := rm.Regs[id]
			o := v.obs(w, ctx, id)
			if !o.Found {
				w.Violate("C09", "C09/"+v.kind+"/registration-missing", "%s %d registered earlier is not found", v.kind, id)
				continue
			}
			if strings.Join(o.Meta, "|") != strings.Join(g.Meta, "|") || o.Owner != g.Owner || o.RegTime != g.RegTime {
				key := fmt.Sprintf("%s/%d", v.kind, id)
				cl := "C09/" + v.kind + "/metadata-not-as-submitted"
				if _, seen := m.meta[key]; seen {
					cl = "C09/" + v.kind + "/metadata-changed-later"
				}
				w.Violate("C09", cl, "%s %d: submitted %v owner %s t=%d; chain %v owner %s t=%d", v.kind, id, g.Meta, g.Owner, g.RegTime, o.Meta, o.Owner, o.RegTime)
			}
			m.meta[fmt.Sprintf("%s/%d", v.kind, id)] = strings.Join(o.Meta, "|") + o.Owner
			w.Probe("c09.reg-checked")
		}
		// no registration the model does not know about (ids are never invented)
		n := 0
		if v.kind == "wrk" {
			n = len(w.Ref.App.WrkchainKeeper.GetAllWrkChains(ctx))
		} else {
			n = len(w.Ref.App.BeaconKeeper.GetAllBeacons(ctx))
		}
		// plus the registrations injected through the genesis document, which the models do not follow
		extra := w.T.Knobs.ManyRegs
		if w.T.Knobs.GenesisRegUpper && extra > 0 {
			extra-- // registration 1 is followed by the models
		}
		if br := w.T.Knobs.BigReg; br != nil && br.Kind == v.kind {
			extra++
		}
		if n != len(rm.Regs)+extra {
			w.Violate("C09", "C09/"+v.kind+"/registration-count-differs", "chain lists %d, model %d", n, len(rm.Regs)+extra)
		}
	}
}

// groupWouldExecute: every EXEC_TRY group proposal in the transaction addresses an existing policy
// and is proposed by that policy's (only) member, so it passes and runs at once.
func groupWouldExecute(w *World, msgs []sdk.Msg) bool {
	ok := false
	for _, lf := range Flatten(msgs) {
		sp, is := lf.Msg.(*group.MsgSubmitProposal)
		if !is || sp.Exec != group.Exec_EXEC_TRY {
			continue
		}
		found := false
		for k := uint64(1); k <= w.M.Grp.N; k++ {
			if PolicyAddr(k).String() == sp.GroupPolicyAddress && len(sp.Proposers) == 1 && sp.Proposers[0] == w.M.Grp.Admin[k] {
				found = true
			}
		}
		if !found {
			return false
		}
		ok = true
	}
	return ok
}
