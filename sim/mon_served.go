package simnet

import (
	"bytes"
	"fmt"
	"strings"

	abci "github.com/cometbft/cometbft/abci/types"
	"github.com/cosmos/cosmos-sdk/types/query"
	"github.com/cosmos/gogoproto/proto"

	beacontypes "github.com/unification-com/mainchain/x/beacon/types"
	enttypes "github.com/unification-com/mainchain/x/enterprise/types"
	streamtypes "github.com/unification-com/mainchain/x/stream/types"
	wrkchaintypes "github.com/unification-com/mainchain/x/wrkchain/types"
)

// monServed runs next to the monitors of every property. The monitors read the chain through
// keeper and query-server calls on contexts of their own; clients read it through the ABCI query
// connection, where the application builds the context itself (a check-state style context over a
// cached multistore of the requested height). What a query answers must not depend on that
// difference, nor on what was asked before. After every block, for a set of queries of the modules
// the property is about:
//
//   - the answer served at the previous height - asked now - is byte-for-byte the answer that was
//     served when that height was the latest one;
//   - the answer served at the latest height (asked after the historical one) is byte-for-byte what
//     the same query handler returns on a plain context over the committed state.
type monServed struct {
	BaseMonitor
	prev    map[string][]byte // answers served at the previous height while it was the latest
	prevH   int64
	modules map[string]bool
}

func (m *monServed) Name() string { return "served" }

var servedModules = map[string][]string{
	"C02": {"ent"}, "C03": {"ent"}, "C04": {"ent"}, "C05": {"ent"}, "C17": {"ent"},
	"C06": {"wrk", "bcn"}, "C07": {"wrk", "bcn"}, "C08": {"wrk", "bcn"}, "C09": {"wrk", "bcn"},
	"C10": {"str"}, "C11": {"str"}, "C12": {"str"},
}

func (m *monServed) Init(w *World) {
	m.modules = map[string]bool{}
	mods, ok := servedModules[w.PropOverride]
	if !ok {
		mods = []string{"ent", "wrk", "bcn", "str"}
	}
	for _, x := range mods {
		m.modules[x] = true
	}
}

type servedQ struct {
	name, path string
	req        proto.Message
}

func (m *monServed) queries(w *World) []servedQ {
	var qs []servedQ
	page := &query.PageRequest{Limit: 50, CountTotal: true}
	if m.modules["ent"] {
		p := "/mainchain.enterprise.v1.Query/"
		qs = append(qs,
			servedQ{"ent.Params", p + "Params", &enttypes.QueryParamsRequest{}},
			servedQ{"ent.TotalLocked", p + "TotalLocked", &enttypes.QueryTotalLockedRequest{}},
			servedQ{"ent.TotalSpentEFUND", p + "TotalSpentEFUND", &enttypes.QueryTotalSpentEFUNDRequest{}},
			servedQ{"ent.TotalUnlocked", p + "TotalUnlocked", &enttypes.QueryTotalUnlockedRequest{}},
			servedQ{"ent.SupplyOf", p + "SupplyOf", &enttypes.QuerySupplyOfRequest{Denom: w.M.Ent.Denom}},
			servedQ{"ent.EnterpriseUndPurchaseOrders", p + "EnterpriseUndPurchaseOrders", &enttypes.QueryEnterpriseUndPurchaseOrdersRequest{Pagination: page}},
			servedQ{"ent.Whitelist", p + "Whitelist", &enttypes.QueryWhitelistRequest{}},
		)
		for i := 0; i < 3 && i < len(w.Actors); i++ {
			a := w.Actors[(w.BlockIdx+i)%len(w.Actors)].Bech()
			qs = append(qs,
				servedQ{"ent.LockedUndByAddress", p + "LockedUndByAddress", &enttypes.QueryLockedUndByAddressRequest{Owner: a}},
				servedQ{"ent.SpentEFUNDByAddress", p + "SpentEFUNDByAddress", &enttypes.QuerySpentEFUNDByAddressRequest{Address: a}},
				servedQ{"ent.EnterpriseAccount", p + "EnterpriseAccount", &enttypes.QueryEnterpriseAccountRequest{Address: a}},
				servedQ{"ent.Whitelisted", p + "Whitelisted", &enttypes.QueryWhitelistedRequest{Address: a}},
			)
		}
	}
	if m.modules["wrk"] {
		p := "/mainchain.wrkchain.v1.Query/"
		qs = append(qs,
			servedQ{"wrk.Params", p + "Params", &wrkchaintypes.QueryParamsRequest{}},
			servedQ{"wrk.WrkChainsFiltered", p + "WrkChainsFiltered", &wrkchaintypes.QueryWrkChainsFilteredRequest{Pagination: page}},
		)
		ids := w.M.Wrk.ids()
		for i := 0; i < 2 && i < len(ids); i++ {
			r := w.M.Wrk.Regs[ids[(w.BlockIdx+i)%len(ids)]]
			qs = append(qs,
				servedQ{"wrk.WrkChain", p + "WrkChain", &wrkchaintypes.QueryWrkChainRequest{WrkchainId: r.Id}},
				servedQ{"wrk.WrkChainStorage", p + "WrkChainStorage", &wrkchaintypes.QueryWrkChainStorageRequest{WrkchainId: r.Id}},
				servedQ{"wrk.WrkChainBlock", p + "WrkChainBlock", &wrkchaintypes.QueryWrkChainBlockRequest{WrkchainId: r.Id, Height: r.LastKey}},
			)
		}
	}
	if m.modules["bcn"] {
		p := "/mainchain.beacon.v1.Query/"
		qs = append(qs,
			servedQ{"bcn.Params", p + "Params", &beacontypes.QueryParamsRequest{}},
			servedQ{"bcn.BeaconsFiltered", p + "BeaconsFiltered", &beacontypes.QueryBeaconsFilteredRequest{Pagination: page}},
		)
		ids := w.M.Bcn.ids()
		for i := 0; i < 2 && i < len(ids); i++ {
			r := w.M.Bcn.Regs[ids[(w.BlockIdx+i)%len(ids)]]
			qs = append(qs,
				servedQ{"bcn.Beacon", p + "Beacon", &beacontypes.QueryBeaconRequest{BeaconId: r.Id}},
				servedQ{"bcn.BeaconStorage", p + "BeaconStorage", &beacontypes.QueryBeaconStorageRequest{BeaconId: r.Id}},
				servedQ{"bcn.BeaconTimestamp", p + "BeaconTimestamp", &beacontypes.QueryBeaconTimestampRequest{BeaconId: r.Id, TimestampId: r.LastKey}},
			)
		}
	}
	if m.modules["str"] {
		p := "/mainchain.stream.v1.Query/"
		qs = append(qs,
			servedQ{"str.Params", p + "Params", &streamtypes.QueryParamsRequest{}},
			servedQ{"str.Streams", p + "Streams", &streamtypes.QueryStreamsRequest{Pagination: page}},
		)
		keys := w.M.Str.keys()
		for i := 0; i < 2 && i < len(keys); i++ {
			s := w.M.Str.Streams[keys[(w.BlockIdx+i)%len(keys)]]
			qs = append(qs, servedQ{"str.StreamByReceiverSender", p + "StreamByReceiverSender", &streamtypes.QueryStreamByReceiverSenderRequest{ReceiverAddr: s.Receiver, SenderAddr: s.Sender}})
		}
	}
	return qs
}

// answer renders the outcome of a query: the value, or the fact that it failed (the wording of an
// error may legitimately mention the context it was raised in).
func answer(r abci.ResponseQuery, err error, p string) []byte {
	// the query connection recovers a panicking handler into an error
	if p != "" || err != nil || r.Code != 0 {
		return []byte("error")
	}
	return append([]byte("ok:"), r.Value...)
}

func (m *monServed) AfterBlock(w *World) {
	if w.IsShadow || w.M == nil {
		return
	}
	app := w.Ref.App
	h := app.LastBlockHeight()
	qs := m.queries(w)
	served := func(q servedQ, height int64) []byte {
		bz, _ := proto.Marshal(q.req)
		var r abci.ResponseQuery
		p, _ := safely(func() { r = app.Query(abci.RequestQuery{Path: q.path, Data: bz, Height: height}) })
		return answer(r, nil, p)
	}
	key := func(q servedQ) string {
		bz, _ := proto.Marshal(q.req)
		return q.path + "|" + string(bz)
	}
	// (1) the previous height, asked now
	if m.prev != nil && m.prevH == h-1 {
		for _, q := range qs {
			// Asking must not change what is being observed. A parameter read at another height
			// would refresh whatever a keeper may hold per height - and with it wipe out, every
			// block, exactly the kind of stale value other oracles are there to catch (seeded change
			// C06-w5-03). The historical pass therefore leaves out the queries that read parameters.
			if strings.HasSuffix(q.name, ".Params") || strings.HasSuffix(q.name, "Storage") {
				continue
			}
			if was, ok := m.prev[key(q)]; ok {
				if now := served(q, h-1); !bytes.Equal(was, now) {
					w.Violate(w.PropOverride, w.PropOverride+"/served-answer-changes-afterwards/"+q.name, "%s asked for height %d answered %s while that height was the latest and answers %s now", q.name, h-1, trunc(fmt.Sprintf("%q", was), 120), trunc(fmt.Sprintf("%q", now), 120))
					break
				}
			}
		}
		w.Probe("served.historical")
	}
	// (2) the latest height: as served, and as the same handler answers on the committed state
	m.prev, m.prevH = map[string][]byte{}, h
	cctx := w.CCtx()
	for _, q := range qs {
		got := served(q, 0)
		m.prev[key(q)] = got
		handler := app.GRPCQueryRouter().Route(q.path)
		if handler == nil {
			continue
		}
		bz, _ := proto.Marshal(q.req)
		var r abci.ResponseQuery
		var err error
		p, _ := safely(func() { r, err = handler(cctx, abci.RequestQuery{Path: q.path, Data: bz}) })
		if want := answer(r, err, p); !bytes.Equal(got, want) {
			w.Violate(w.PropOverride, w.PropOverride+"/served-answer-differs-from-committed-state/"+q.name, "%s at height %d is served as %s; on the committed state the query answers %s", q.name, h, trunc(fmt.Sprintf("%q", got), 120), trunc(fmt.Sprintf("%q", want), 120))
			break
		}
	}
	w.Probe("served.latest")
}
