package simnet

// mon_store.go — oracle for C18 (distinct entities never alias each other's storage).
//
// App world: the retention / order / stream models of C03, C07, C08, C09, C11 run on behalf of
// C18 over histories whose identifiers are biased to boundaries (monitors.go).
// Store world (this file): a seeded sequence of keeper writes/deletes over boundary identifiers
// and addresses of every length class, on the deliver state of a scratch node, checked after
// every operation against a reference map, then committed, the node re-opened from its database
// and everything read again from the durable store.

import (
	"fmt"
	"math/rand"
	"sort"
	"time"

	dbm "github.com/cometbft/cometbft-db"
	abci "github.com/cometbft/cometbft/abci/types"
	sdk "github.com/cosmos/cosmos-sdk/types"
	"github.com/cosmos/cosmos-sdk/types/query"

	beacontypes "github.com/unification-com/mainchain/x/beacon/types"
	enttypes "github.com/unification-com/mainchain/x/enterprise/types"
	streamtypes "github.com/unification-com/mainchain/x/stream/types"
	wrkchaintypes "github.com/unification-com/mainchain/x/wrkchain/types"
)

type monC18 struct{ BaseMonitor }

func (m *monC18) Name() string { return "C18" }

var boundaryIDs = []uint64{0, 1, 2, 255, 256, 257, 65535, 65536, 1<<32 - 1, 1 << 32, 1<<32 + 1, 1<<63 - 1, 1 << 63, ^uint64(0) - 1, ^uint64(0)}

func boundaryAddr(r *rand.Rand) sdk.AccAddress {
	n := pick(r, []int{1, 2, 19, 20, 20, 21, 31, 32, 33, 64, 128, 254, 255})
	b := make([]byte, n)
	fill := byte(r.Intn(3)) // few distinct fills so that prefixes of each other occur
	for i := range b {
		b[i] = fill
	}
	if r.Intn(2) == 0 {
		b[n-1] = byte(r.Intn(256))
	}
	return sdk.AccAddress(b)
}

// kind is one entity kind of the store world.
type skind struct {
	name    string
	set     func(ctx sdk.Context, r *rand.Rand) (key, val string)
	del     func(ctx sdk.Context, key string) bool
	get     func(ctx sdk.Context, key string) (string, bool)
	list    func(ctx sdk.Context) []string // keys in listing order
	ordered bool
	less    func(a, b string) bool
}

func (m *monC18) AtEnd(w *World) {
	if w.St.Halted != "" {
		return
	}
	if p, _ := safely(func() { m.storeWorld(w) }); p != "" {
		w.Violate("C18", "C18/store-world-panics", "%s", trunc(p, 300))
	}
}

func u64key(id uint64) string    { return fmt.Sprintf("%020d", id) }
func pairKey(a, b uint64) string { return fmt.Sprintf("%020d/%020d", a, b) }

func (m *monC18) storeWorld(w *World) {
	n := &Node{Idx: 200, Cfg: DefaultRefCfg(), DB: newLeakDB(dbm.NewMemDB())}
	n.Open()
	n.App.InitChain(InitChainReq(w.AppState))
	hdr := MakeHeader(1, time.Unix(GenesisTS+1, 0).UTC(), nil)
	n.App.BeginBlock(abci.RequestBeginBlock{Header: hdr, LastCommitInfo: LastCommit()})
	ctx := n.App.BaseApp.NewContext(false, hdr)
	r := rand.New(rand.NewSource(w.T.Seed ^ 0x5eed18))
	a := n.App
	id := func() uint64 {
		if r.Intn(4) == 0 {
			return r.Uint64()
		}
		return pick(r, boundaryIDs)
	}
	coin := func() sdk.Coin { return sdk.NewInt64Coin(Native, int64(1+r.Intn(1000000))) }
	kinds := []*skind{
		{name: "order", ordered: true,
			set: func(ctx sdk.Context, r *rand.Rand) (string, string) {
				po := enttypes.EnterpriseUndPurchaseOrder{Id: id(), Purchaser: boundaryAddr(r).String(), Amount: coin(), Status: enttypes.StatusRaised, RaiseTime: r.Uint64()}
				_ = a.EnterpriseKeeper.SetPurchaseOrder(ctx, po)
				return u64key(po.Id), po.String()
			},
			get: func(ctx sdk.Context, k string) (string, bool) {
				var i uint64
				fmt.Sscanf(k, "%d", &i)
				po, ok := a.EnterpriseKeeper.GetPurchaseOrder(ctx, i)
				return po.String(), ok
			},
			list: func(ctx sdk.Context) []string {
				var out []string
				for _, po := range a.EnterpriseKeeper.GetAllPurchaseOrders(ctx) {
					out = append(out, u64key(po.Id))
				}
				return out
			}},
		{name: "raised-queue", ordered: true,
			set: func(ctx sdk.Context, r *rand.Rand) (string, string) {
				i := id()
				a.EnterpriseKeeper.AddPoToRaisedQueue(ctx, i)
				return u64key(i), "q"
			},
			del: func(ctx sdk.Context, k string) bool {
				var i uint64
				fmt.Sscanf(k, "%d", &i)
				a.EnterpriseKeeper.RemovePurchaseOrderFromRaisedQueue(ctx, i)
				return true
			},
			get: func(ctx sdk.Context, k string) (string, bool) {
				var i uint64
				fmt.Sscanf(k, "%d", &i)
				return "q", a.EnterpriseKeeper.PurchaseOrderIsInRaisedQueue(ctx, i)
			},
			list: func(ctx sdk.Context) []string {
				var out []string
				for _, i := range a.EnterpriseKeeper.GetAllRaisedPurchaseOrders(ctx) {
					out = append(out, u64key(i))
				}
				return out
			}},
		{name: "accepted-queue", ordered: true,
			set: func(ctx sdk.Context, r *rand.Rand) (string, string) {
				i := id()
				a.EnterpriseKeeper.AddPoToAcceptedQueue(ctx, i)
				return u64key(i), "q"
			},
			del: func(ctx sdk.Context, k string) bool {
				var i uint64
				fmt.Sscanf(k, "%d", &i)
				a.EnterpriseKeeper.RemovePurchaseOrderFromAcceptedQueue(ctx, i)
				return true
			},
			get: func(ctx sdk.Context, k string) (string, bool) {
				var i uint64
				fmt.Sscanf(k, "%d", &i)
				return "q", a.EnterpriseKeeper.PurchaseOrderIsInAcceptedQueue(ctx, i)
			},
			list: func(ctx sdk.Context) []string {
				var out []string
				for _, i := range a.EnterpriseKeeper.GetAllAcceptedPurchaseOrders(ctx) {
					out = append(out, u64key(i))
				}
				return out
			}},
		{name: "locked",
			set: func(ctx sdk.Context, r *rand.Rand) (string, string) {
				l := enttypes.LockedUnd{Owner: boundaryAddr(r).String(), Amount: coin()}
				_ = a.EnterpriseKeeper.SetLockedUndForAccount(ctx, l)
				return l.Owner, l.String()
			},
			get: func(ctx sdk.Context, k string) (string, bool) {
				ad, _ := sdk.AccAddressFromBech32(k)
				l := a.EnterpriseKeeper.GetLockedUndForAccount(ctx, ad)
				return l.String(), a.EnterpriseKeeper.AccountHasLockedUnd(ctx, ad)
			},
			list: func(ctx sdk.Context) []string {
				var out []string
				for _, l := range a.EnterpriseKeeper.GetAllLockedUnds(ctx) {
					out = append(out, l.Owner)
				}
				return out
			}},
		{name: "spent",
			set: func(ctx sdk.Context, r *rand.Rand) (string, string) {
				l := enttypes.SpentEFUND{Owner: boundaryAddr(r).String(), Amount: coin()}
				_ = a.EnterpriseKeeper.SetSpentEFUNDForAccount(ctx, l)
				return l.Owner, l.String()
			},
			get: func(ctx sdk.Context, k string) (string, bool) {
				ad, _ := sdk.AccAddressFromBech32(k)
				l := a.EnterpriseKeeper.GetSpentEFUNDForAccount(ctx, ad)
				return l.String(), a.EnterpriseKeeper.AccountHasSpentEFUND(ctx, ad)
			},
			list: func(ctx sdk.Context) []string {
				var out []string
				for _, l := range a.EnterpriseKeeper.GetAllSpentEFUNDs(ctx) {
					out = append(out, l.Owner)
				}
				return out
			}},
		{name: "whitelist",
			set: func(ctx sdk.Context, r *rand.Rand) (string, string) {
				ad := boundaryAddr(r)
				_ = a.EnterpriseKeeper.AddAddressToWhitelist(ctx, ad)
				return ad.String(), "w"
			},
			del: func(ctx sdk.Context, k string) bool {
				ad, _ := sdk.AccAddressFromBech32(k)
				_ = a.EnterpriseKeeper.RemoveAddressFromWhitelist(ctx, ad)
				return true
			},
			get: func(ctx sdk.Context, k string) (string, bool) {
				ad, _ := sdk.AccAddressFromBech32(k)
				return "w", a.EnterpriseKeeper.AddressIsWhitelisted(ctx, ad)
			},
			list: func(ctx sdk.Context) []string { return a.EnterpriseKeeper.GetAllWhitelistedAddresses(ctx) }},
		{name: "wrkchain", ordered: true,
			set: func(ctx sdk.Context, r *rand.Rand) (string, string) {
				c := wrkchaintypes.WrkChain{WrkchainId: id(), Moniker: randStr(r, 5), Owner: boundaryAddr(r).String(), Lastblock: r.Uint64()}
				_ = a.WrkchainKeeper.SetWrkChain(ctx, c)
				return u64key(c.WrkchainId), c.String()
			},
			get: func(ctx sdk.Context, k string) (string, bool) {
				var i uint64
				fmt.Sscanf(k, "%d", &i)
				c, ok := a.WrkchainKeeper.GetWrkChain(ctx, i)
				return c.String(), ok
			},
			list: func(ctx sdk.Context) []string {
				var out []string
				for _, c := range a.WrkchainKeeper.GetAllWrkChains(ctx) {
					out = append(out, u64key(c.WrkchainId))
				}
				return out
			}},
		{name: "wrkchain-limit",
			set: func(ctx sdk.Context, r *rand.Rand) (string, string) {
				i, l := id(), r.Uint64()
				_ = a.WrkchainKeeper.SetWrkChainStorageLimit(ctx, i, l)
				return u64key(i), fmt.Sprint(l)
			},
			get: func(ctx sdk.Context, k string) (string, bool) {
				var i uint64
				fmt.Sscanf(k, "%d", &i)
				l, ok := a.WrkchainKeeper.GetWrkChainStorageLimit(ctx, i)
				return fmt.Sprint(l.InStateLimit), ok
			}},
		{name: "wrkchain-record",
			set: func(ctx sdk.Context, r *rand.Rand) (string, string) {
				i := id()
				b := wrkchaintypes.WrkChainBlock{Height: id(), Blockhash: randStr(r, 6), SubTime: r.Uint64()}
				_ = a.WrkchainKeeper.SetWrkChainBlock(ctx, i, b)
				return pairKey(i, b.Height), b.String()
			},
			get: func(ctx sdk.Context, k string) (string, bool) {
				var i, h uint64
				fmt.Sscanf(k, "%d/%d", &i, &h)
				b, ok := a.WrkchainKeeper.GetWrkChainBlock(ctx, i, h)
				return b.String(), ok
			}},
		{name: "beacon", ordered: true,
			set: func(ctx sdk.Context, r *rand.Rand) (string, string) {
				c := beacontypes.Beacon{BeaconId: id(), Moniker: randStr(r, 5), Owner: boundaryAddr(r).String(), LastTimestampId: r.Uint64()}
				_ = a.BeaconKeeper.SetBeacon(ctx, c)
				return u64key(c.BeaconId), c.String()
			},
			get: func(ctx sdk.Context, k string) (string, bool) {
				var i uint64
				fmt.Sscanf(k, "%d", &i)
				c, ok := a.BeaconKeeper.GetBeacon(ctx, i)
				return c.String(), ok
			},
			list: func(ctx sdk.Context) []string {
				var out []string
				for _, c := range a.BeaconKeeper.GetAllBeacons(ctx) {
					out = append(out, u64key(c.BeaconId))
				}
				return out
			}},
		{name: "beacon-limit",
			set: func(ctx sdk.Context, r *rand.Rand) (string, string) {
				i, l := id(), r.Uint64()
				_ = a.BeaconKeeper.SetBeaconStorageLimit(ctx, i, l)
				return u64key(i), fmt.Sprint(l)
			},
			get: func(ctx sdk.Context, k string) (string, bool) {
				var i uint64
				fmt.Sscanf(k, "%d", &i)
				l, ok := a.BeaconKeeper.GetBeaconStorageLimit(ctx, i)
				return fmt.Sprint(l.InStateLimit), ok
			}},
		{name: "beacon-record",
			set: func(ctx sdk.Context, r *rand.Rand) (string, string) {
				i := id()
				b := beacontypes.BeaconTimestamp{TimestampId: id(), Hash: randStr(r, 6), SubmitTime: r.Uint64()}
				_ = a.BeaconKeeper.SetBeaconTimestamp(ctx, i, b)
				return pairKey(i, b.TimestampId), b.String()
			},
			get: func(ctx sdk.Context, k string) (string, bool) {
				var i, h uint64
				fmt.Sscanf(k, "%d/%d", &i, &h)
				b, ok := a.BeaconKeeper.GetBeaconTimestampByID(ctx, i, h)
				return b.String(), ok
			}},
		{name: "stream",
			set: func(ctx sdk.Context, r *rand.Rand) (string, string) {
				rc, sn := boundaryAddr(r), boundaryAddr(r)
				st := streamtypes.Stream{Deposit: coin(), FlowRate: int64(1 + r.Intn(1000)), LastOutflowTime: time.Unix(GenesisTS, 0).UTC(), DepositZeroTime: time.Unix(GenesisTS+int64(r.Intn(100000)), 0).UTC(), Cancellable: true}
				_ = a.StreamKeeper.SetStream(ctx, rc, sn, st)
				return rc.String() + "<-" + sn.String(), st.String()
			},
			del: func(ctx sdk.Context, k string) bool {
				var rs, ss string
				splitArrow(k, &rs, &ss)
				rc, _ := sdk.AccAddressFromBech32(rs)
				sn, _ := sdk.AccAddressFromBech32(ss)
				a.StreamKeeper.DeleteStream(ctx, rc, sn)
				return true
			},
			get: func(ctx sdk.Context, k string) (string, bool) {
				var rs, ss string
				splitArrow(k, &rs, &ss)
				rc, _ := sdk.AccAddressFromBech32(rs)
				sn, _ := sdk.AccAddressFromBech32(ss)
				st, ok := a.StreamKeeper.GetStream(ctx, rc, sn)
				return st.String(), ok
			},
			list: func(ctx sdk.Context) []string {
				var out []string
				a.StreamKeeper.IterateAllStreams(ctx, func(rc, sn sdk.AccAddress, _ streamtypes.Stream) bool {
					out = append(out, rc.String()+"<-"+sn.String())
					return false
				})
				return out
			}},
	}
	ref := map[string]map[string]string{}
	for _, k := range kinds {
		ref[k.name] = map[string]string{}
		if k.list != nil {
			for _, key := range k.list(ctx) {
				v, _ := k.get(ctx, key)
				ref[k.name][key] = v
			}
		}
	}
	verify := func(ctx sdk.Context, where string) bool {
		ok := true
		for _, k := range kinds {
			want := ref[k.name]
			for _, key := range sortedKeys(want) {
				v, found := k.get(ctx, key)
				if !found || v != want[key] {
					w.Violate("C18", "C18/store/"+k.name+"/read-differs-from-last-write", "%s: %s %s: wrote %s, read %s (found %v)", where, k.name, trunc(key, 90), trunc(want[key], 120), trunc(v, 120), found)
					ok = false
				}
			}
			if k.list != nil {
				got := k.list(ctx)
				gs := append([]string(nil), got...)
				sort.Strings(gs)
				ws := sortedKeys(want)
				if fmt.Sprint(gs) != fmt.Sprint(ws) {
					w.Violate("C18", "C18/store/"+k.name+"/listing-differs-from-written-set", "%s: %s lists %d entries, %d were written and not deleted", where, k.name, len(gs), len(ws))
					ok = false
				} else if k.ordered && fmt.Sprint(got) != fmt.Sprint(ws) {
					w.Violate("C18", "C18/store/"+k.name+"/listing-not-in-ascending-numeric-order", "%s: %s lists %v", where, k.name, got)
					ok = false
				}
			}
		}
		// stream list queries report exactly the parties the stream was written with
		if !m.streamQueries(w, n, ctx, ref["stream"], where) {
			ok = false
		}
		return ok
	}
	nops := 50 + r.Intn(40)
	for i := 0; i < nops; i++ {
		k := pick(r, kinds)
		if k.del != nil && len(ref[k.name]) > 0 && r.Intn(4) == 0 {
			key := pick(r, sortedKeys(ref[k.name]))
			k.del(ctx, key)
			delete(ref[k.name], key)
			w.Probe("c18.store.delete")
		} else {
			key, val := k.set(ctx, r)
			ref[k.name][key] = val
			w.Probe("c18.store.write")
		}
		if !verify(ctx, fmt.Sprintf("after op %d (%s)", i, k.name)) || w.stopped {
			return
		}
	}
	// commit and re-open: what is compared now is the durable store
	n.App.EndBlock(abci.RequestEndBlock{Height: 1})
	n.releaseDangling()
	n.App.Commit()
	n.Open()
	ctx2 := n.App.BaseApp.NewUncachedContext(false, hdr)
	a = n.App
	verify(ctx2, "after commit and re-open")
	w.Probe("c18.store.reopened")
}

func splitArrow(k string, a, b *string) {
	for i := 0; i+1 < len(k); i++ {
		if k[i] == '<' && k[i+1] == '-' {
			*a, *b = k[:i], k[i+2:]
			return
		}
	}
}

// streamQueries checks Streams / AllStreamsForReceiver / AllStreamsForSender against the written set:
// every stream is reported exactly once, with exactly the receiver and sender it was written with.
func (m *monC18) streamQueries(w *World, n *Node, ctx sdk.Context, want map[string]string, where string) bool {
	ok := true
	g := sdk.WrapSDKContext(ctx)
	k := n.App.StreamKeeper
	collect := func(name string, page func(pr *query.PageRequest) ([]*streamtypes.StreamResult, *query.PageResponse, error)) (map[string]int, bool) {
		got := map[string]int{}
		var key []byte
		for i := 0; i < 100; i++ {
			var rs []*streamtypes.StreamResult
			var pr *query.PageResponse
			var err error
			if p, _ := safely(func() { rs, pr, err = page(&query.PageRequest{Key: key, Limit: 7}) }); p != "" {
				w.Violate("C18", "C18/store/stream/"+name+"-panics", "%s: %s", where, trunc(p, 200))
				return nil, false
			}
			if err != nil {
				w.Violate("C18", "C18/store/stream/"+name+"-fails", "%s: %v", where, err)
				return nil, false
			}
			for _, r := range rs {
				got[r.Receiver+"<-"+r.Sender]++
			}
			if pr == nil || len(pr.NextKey) == 0 {
				break
			}
			key = pr.NextKey
		}
		return got, true
	}
	compare := func(name string, got map[string]int, exp map[string]bool) {
		for _, id := range sortedKeys(exp) {
			if got[id] != 1 {
				w.Violate("C18", "C18/store/stream/"+name+"-wrong-parties-or-count", "%s: %s reports stream %s %d times; reported: %v", where, name, trunc(id, 120), got[id], headS(sortedKeys(got), 3))
				ok = false
				return
			}
		}
		for _, id := range sortedKeys(got) {
			if !exp[id] {
				w.Violate("C18", "C18/store/stream/"+name+"-wrong-parties-or-count", "%s: %s reports %s which was never written", where, name, trunc(id, 120))
				ok = false
				return
			}
		}
	}
	all := map[string]bool{}
	recv, send := map[string]map[string]bool{}, map[string]map[string]bool{}
	for id := range want {
		all[id] = true
		var rs, ss string
		splitArrow(id, &rs, &ss)
		if recv[rs] == nil {
			recv[rs] = map[string]bool{}
		}
		recv[rs][id] = true
		if send[ss] == nil {
			send[ss] = map[string]bool{}
		}
		send[ss][id] = true
	}
	if got, fine := collect("Streams", func(pr *query.PageRequest) ([]*streamtypes.StreamResult, *query.PageResponse, error) {
		r, err := k.Streams(g, &streamtypes.QueryStreamsRequest{Pagination: pr})
		if err != nil {
			return nil, nil, err
		}
		return r.Streams, r.Pagination, nil
	}); fine {
		compare("Streams", got, all)
	} else {
		ok = false
	}
	for _, rs := range sortedKeys(recv) {
		rs := rs
		if got, fine := collect("AllStreamsForReceiver", func(pr *query.PageRequest) ([]*streamtypes.StreamResult, *query.PageResponse, error) {
			r, err := k.AllStreamsForReceiver(g, &streamtypes.QueryAllStreamsForReceiverRequest{ReceiverAddr: rs, Pagination: pr})
			if err != nil {
				return nil, nil, err
			}
			return r.Streams, r.Pagination, nil
		}); fine {
			compare("AllStreamsForReceiver", got, recv[rs])
		} else {
			ok = false
		}
		if !ok {
			return false
		}
	}
	for _, ss := range sortedKeys(send) {
		ss := ss
		if got, fine := collect("AllStreamsForSender", func(pr *query.PageRequest) ([]*streamtypes.StreamResult, *query.PageResponse, error) {
			r, err := k.AllStreamsForSender(g, &streamtypes.QueryAllStreamsForSenderRequest{SenderAddr: ss, Pagination: pr})
			if err != nil {
				return nil, nil, err
			}
			return r.Streams, r.Pagination, nil
		}); fine {
			compare("AllStreamsForSender", got, send[ss])
		} else {
			ok = false
		}
		if !ok {
			return false
		}
	}
	return ok
}

func headS(x []string, n int) []string {
	if len(x) > n {
		x = x[:n]
	}
	out := make([]string, len(x))
	for i, s := range x {
		out[i] = trunc(s, 100)
	}
	return out
}
