package simnet

// mon_str.go — oracles for the payment-stream properties C10, C11, C12.

import (
	"fmt"
	"math/big"
	"strings"
	"time"

	abci "github.com/cometbft/cometbft/abci/types"
	sdk "github.com/cosmos/cosmos-sdk/types"
	"github.com/cosmos/cosmos-sdk/types/query"
	authtypes "github.com/cosmos/cosmos-sdk/x/auth/types"

	streamtypes "github.com/unification-com/mainchain/x/stream/types"
)

func streamLeaves(tx *TxCtx) []sdk.Msg {
	var out []sdk.Msg
	for _, lf := range Flatten(tx.Msgs) {
		if strings.HasPrefix(msgKind(lf.Msg), "str.") && msgKind(lf.Msg) != "str.params" {
			out = append(out, lf.Msg)
		}
	}
	return out
}

func streamParties(m sdk.Msg) (sender, receiver string) {
	switch x := m.(type) {
	case *streamtypes.MsgCreateStream:
		return x.Sender, x.Receiver
	case *streamtypes.MsgClaimStream:
		return x.Sender, x.Receiver
	case *streamtypes.MsgTopUpDeposit:
		return x.Sender, x.Receiver
	case *streamtypes.MsgUpdateFlowRate:
		return x.Sender, x.Receiver
	case *streamtypes.MsgCancelStream:
		return x.Sender, x.Receiver
	}
	return "", ""
}

// allStreams pages through the public Streams query.
func allStreams(w *World, ctx sdk.Context) ([]*streamtypes.StreamResult, error) {
	var out []*streamtypes.StreamResult
	var key []byte
	for i := 0; i < 1000; i++ {
		r, err := w.Ref.App.StreamKeeper.Streams(sdk.WrapSDKContext(ctx), &streamtypes.QueryStreamsRequest{Pagination: &query.PageRequest{Key: key, Limit: 200}})
		if err != nil {
			return nil, err
		}
		out = append(out, r.Streams...)
		if r.Pagination == nil || len(r.Pagination.NextKey) == 0 {
			break
		}
		key = r.Pagination.NextKey
	}
	return out, nil
}

func streamQuery(w *World, ctx sdk.Context, sender, receiver string) (*streamtypes.Stream, error) {
	r, err := w.Ref.App.StreamKeeper.StreamByReceiverSender(sdk.WrapSDKContext(ctx), &streamtypes.QueryStreamByReceiverSenderRequest{ReceiverAddr: receiver, SenderAddr: sender})
	if err != nil {
		return nil, err
	}
	if r.Stream.Stream == nil {
		return nil, fmt.Errorf("nil stream")
	}
	return r.Stream.Stream, nil
}

func streamFeeRate(w *World, ctx sdk.Context) *big.Rat {
	// the rate in force is the one of the last update that was adopted (genesis, or a proposal that
	// passed and executed as a whole) - not whatever the node answers when asked, which is itself
	// under test
	if w.M != nil && w.M.Str != nil && w.M.Str.ValFee != nil {
		return new(big.Rat).Set(w.M.Str.ValFee)
	}
	r, err := w.Ref.App.StreamKeeper.Params(sdk.WrapSDKContext(ctx), &streamtypes.QueryParamsRequest{})
	if err != nil || r.Params.ValidatorFee.IsNil() {
		return new(big.Rat)
	}
	return ratOfDec(r.Params.ValidatorFee.String())
}

// flows holds the balance movement of one transaction in one denomination with the transaction
// fee taken out, for the four parties of a stream operation.
type flows struct{ Module, Sender, Receiver, Collector *big.Int }

func txFlows(w *World, tx *TxCtx, pre, post sheet, denom, sender, receiver string) flows {
	mod := ModuleAddr(streamtypes.ModuleName).String()
	col := ModuleAddr(authtypes.FeeCollectorName).String()
	d := func(a string) *big.Int { return new(big.Int).Sub(post.get(a, denom), pre.get(a, denom)) }
	f := flows{d(mod), d(sender), d(receiver), d(col)}
	if tx.AntePassed {
		fee := tx.Fee.AmountOf(denom).BigInt()
		if fee.Sign() > 0 {
			src := tx.Payer.String()
			if len(tx.Granter) > 0 {
				src = tx.Granter.String()
			}
			f.Collector.Sub(f.Collector, fee)
			switch src {
			case sender:
				f.Sender.Add(f.Sender, fee)
			case receiver:
				f.Receiver.Add(f.Receiver, fee)
			}
		}
	}
	return f
}

func escrowVsDeposits(w *World, ctx sdk.Context, prop, where string) {
	streams, err := allStreams(w, ctx)
	if err != nil {
		w.Violate(prop, prop+"/streams-query-error", "%v", err)
		return
	}
	sum := map[string]*big.Int{}
	for _, s := range streams {
		d := s.Stream.Deposit
		if sum[d.Denom] == nil {
			sum[d.Denom] = new(big.Int)
		}
		sum[d.Denom].Add(sum[d.Denom], d.Amount.BigInt())
	}
	bal := w.Ref.App.BankKeeper.GetAllBalances(ctx, ModuleAddr(streamtypes.ModuleName))
	seen := map[string]bool{}
	for _, c := range bal {
		seen[c.Denom] = true
	}
	for d := range sum {
		seen[d] = true
	}
	for _, d := range sortedKeys(seen) {
		s := sum[d]
		if s == nil {
			s = new(big.Int)
		}
		if bal.AmountOf(d).BigInt().Cmp(s) != 0 {
			w.Violate(prop, prop+"/escrow-ne-sum-of-deposits", "%s: stream escrow holds %s%s, remaining deposits of all streams sum to %s", where, bal.AmountOf(d), d, s)
		}
	}
	if len(streams) > 0 {
		w.Probe("c10.streams-live")
	}
}

// ---------------------------------------------------------------------------------------------
// C10 — escrow conserved and fully backed

type ledger struct{ Deposited, Paid, Fees, Refunded *big.Int }

type monC10 struct {
	BaseMonitor
	pre     sheet
	ledger  map[string]*ledger
	govSeen int
}

func (m *monC10) Name() string  { return "C10" }
func (m *monC10) Init(w *World) { m.ledger = map[string]*ledger{} }

func (m *monC10) BeforeTx(w *World, tx *TxCtx) { m.pre = balanceSheet(w, w.DCtx()) }

func (m *monC10) AfterTx(w *World, tx *TxCtx) {
	ctx := w.DCtx()
	post := balanceSheet(w, ctx)
	mod := ModuleAddr(streamtypes.ModuleName).String()
	leaves := streamLeaves(tx)
	if len(leaves) == 0 || tx.Resp.Code != 0 {
		// no stream operation took effect: the escrow account must not move
		for _, den := range []string{Native, Denom2, Denom3} {
			if post.get(mod, den).Cmp(m.pre.get(mod, den)) != 0 {
				w.Violate("C10", "C10/escrow-moved-by-non-stream-tx", "tx %d/%d (%s, code %d) moved the stream escrow %s by %s", tx.Block, tx.Idx, kindsOf(tx), tx.Resp.Code, den, new(big.Int).Sub(post.get(mod, den), m.pre.get(mod, den)))
			}
		}
		if len(leaves) == 0 {
			return
		}
	}
	escrowVsDeposits(w, ctx, "C10", "tx")
	if tx.Resp.Code != 0 || len(Flatten(tx.Msgs)) != 1 {
		if tx.Resp.Code == 0 {
			// several operations in one tx: resynchronise ledgers of the touched streams from what is observable
			for _, lf := range leaves {
				s, r := streamParties(lf)
				delete(m.ledger, skey(s, r))
			}
		}
		return
	}
	// single stream operation: flow of funds
	msg := leaves[0]
	sender, receiver := streamParties(msg)
	key := skey(sender, receiver)
	col := ModuleAddr(authtypes.FeeCollectorName).String()
	if sender == receiver || sender == mod || receiver == mod || sender == col || receiver == col {
		return
	}
	var denom string
	var st *streamtypes.Stream
	if q, err := streamQuery(w, ctx, sender, receiver); err == nil {
		st = q
		denom = q.Deposit.Denom
	}
	lg := m.ledger[key]
	kind := msgKind(msg)
	if kind == "str.create" {
		c := msg.(*streamtypes.MsgCreateStream)
		denom = c.Deposit.Denom
		lg = &ledger{new(big.Int), new(big.Int), new(big.Int), new(big.Int)}
		m.ledger[key] = lg
	}
	if len(w.M.Settles) == 1 && w.M.Settles[0].Key == key {
		denom = w.M.Settles[0].Denom
	}
	if denom == "" {
		return
	}
	f := txFlows(w, tx, m.pre, post, denom, sender, receiver)
	rate := streamFeeRate(w, ctx)
	released := new(big.Int).Add(f.Receiver, f.Collector)
	wantFee := new(big.Int).Mul(released, rate.Num())
	wantFee.Quo(wantFee, rate.Denom())
	w.Probe("c10.flow." + kind)
	if released.Sign() < 0 {
		w.Violate("C10", "C10/negative-release", "%s: receiver %s collector %s", kind, f.Receiver, f.Collector)
		return
	}
	if f.Collector.Cmp(wantFee) != 0 {
		w.Violate("C10", "C10/fee-split-wrong", "%s released %s%s at validator fee %s: fee collector got %s, expected floor = %s; receiver got %s", kind, released, denom, rate.FloatString(18), f.Collector, wantFee, f.Receiver)
	}
	var deposit, refund *big.Int = new(big.Int), new(big.Int)
	switch kind {
	case "str.create":
		deposit = msg.(*streamtypes.MsgCreateStream).Deposit.Amount.BigInt()
	case "str.topup":
		deposit = msg.(*streamtypes.MsgTopUpDeposit).Deposit.Amount.BigInt()
	case "str.cancel":
		refund = new(big.Int).Set(f.Sender)
	}
	// sender: -deposit or +refund
	wantSender := new(big.Int).Sub(refund, deposit)
	if f.Sender.Cmp(wantSender) != 0 {
		w.Violate("C10", "C10/sender-flow-wrong", "%s: sender balance moved by %s, expected %s", kind, f.Sender, wantSender)
	}
	// module: +deposit - released - refund
	wantMod := new(big.Int).Sub(deposit, released)
	wantMod.Sub(wantMod, refund)
	if f.Module.Cmp(wantMod) != 0 {
		w.Violate("C10", "C10/escrow-flow-wrong", "%s: escrow moved by %s, expected +%s -%s -%s", kind, f.Module, deposit, released, refund)
	}
	// per-stream ledger
	if lg != nil {
		lg.Deposited.Add(lg.Deposited, deposit)
		lg.Paid.Add(lg.Paid, f.Receiver)
		lg.Fees.Add(lg.Fees, f.Collector)
		lg.Refunded.Add(lg.Refunded, refund)
		remaining := new(big.Int)
		if st != nil {
			remaining = st.Deposit.Amount.BigInt()
		}
		tot := new(big.Int).Add(lg.Paid, lg.Fees)
		tot.Add(tot, lg.Refunded)
		tot.Add(tot, remaining)
		if tot.Cmp(lg.Deposited) != 0 {
			w.Violate("C10", "C10/stream-ledger-unbalanced", "%s on %s: deposited %s != paid %s + fees %s + refunded %s + remaining %s", kind, key, lg.Deposited, lg.Paid, lg.Fees, lg.Refunded, remaining)
		}
		w.Probe("c10.ledger-checked")
		if kind == "str.cancel" {
			delete(m.ledger, key)
		}
	}
}

// operations executed by governance in EndBlock are not seen transaction by transaction: the
// per-stream ledgers are restarted whenever a proposal was executed
func (m *monC10) AfterEnd(w *World, _ abci.ResponseEndBlock) {
	if w.M.Gov.Passed+w.M.Gov.Failed != m.govSeen {
		m.govSeen = w.M.Gov.Passed + w.M.Gov.Failed
		m.ledger = map[string]*ledger{}
	}
}

func (m *monC10) AfterBlock(w *World) {
	ctx := w.CCtx()
	escrowVsDeposits(w, ctx, "C10", "block")
	if w.BlockIdx%4 == 0 {
		w.checkInvariants(ctx, "C10")
	}
}

// ---------------------------------------------------------------------------------------------
// C11 — release at exactly the agreed rate, never faster

type monC11 struct {
	BaseMonitor
	pre sheet
}

func (m *monC11) Name() string { return "C11" }

func (m *monC11) BeforeTx(w *World, tx *TxCtx) {
	if len(streamLeaves(tx)) > 0 {
		m.pre = balanceSheet(w, w.DCtx())
	}
}

func claimResponse(w *World, r abci.ResponseDeliverTx) *streamtypes.MsgClaimStreamResponse {
	var d sdk.TxMsgData
	if err := w.Ref.App.AppCodec().Unmarshal(r.Data, &d); err != nil || len(d.MsgResponses) != 1 || !strings.HasSuffix(d.MsgResponses[0].TypeUrl, "MsgClaimStreamResponse") {
		return nil
	}
	var resp streamtypes.MsgClaimStreamResponse
	if err := w.Ref.App.AppCodec().Unmarshal(d.MsgResponses[0].Value, &resp); err != nil {
		return nil
	}
	return &resp
}

func (m *monC11) AfterTx(w *World, tx *TxCtx) {
	leaves := streamLeaves(tx)
	if len(leaves) == 0 || tx.Resp.Code != 0 {
		return
	}
	ctx := w.DCtx()
	// (1) model vs chain for every stream the transaction touched
	touched := map[string][2]string{}
	for _, lf := range leaves {
		s, r := streamParties(lf)
		touched[skey(s, r)] = [2]string{s, r}
	}
	for _, k := range sortedKeys(touched) {
		m.compare(w, ctx, touched[k][0], touched[k][1], kindsOf(tx))
	}
	// (2) pay-outs of a single stream operation
	if len(Flatten(tx.Msgs)) != 1 || len(w.M.Settles) != 1 {
		return
	}
	sr := w.M.Settles[0]
	sender, receiver := streamParties(leaves[0])
	mod := ModuleAddr(streamtypes.ModuleName).String()
	col := ModuleAddr(authtypes.FeeCollectorName).String()
	if sender == receiver || sender == mod || receiver == mod || sender == col || receiver == col {
		return
	}
	denom := sr.Denom
	post := balanceSheet(w, ctx)
	f := txFlows(w, tx, m.pre, post, denom, sender, receiver)
	released := new(big.Int).Add(f.Receiver, f.Collector)
	w.Probe("c11.release." + sr.Kind)
	if sr.Released.Sign() > 0 {
		w.Probe("c11.release-positive")
	}
	if released.Cmp(sr.Released) != 0 {
		rel := "less"
		if released.Cmp(sr.Released) > 0 {
			rel = "more"
		}
		w.Violate("C11", "C11/released-"+rel+"-than-agreed/"+sr.Kind, "%s on %s at t=%s released %s%s; rate x whole funded seconds (or the remainder at/after the zero time) gives %s", sr.Kind, sr.Key, w.Now.Format(time.RFC3339Nano), released, denom, sr.Released)
	}
	if sr.Kind == "cancel" {
		refund := f.Sender
		if refund.Cmp(sr.Refund) != 0 {
			w.Violate("C11", "C11/refund-not-the-unreleased-remainder", "cancel on %s refunded %s, unreleased remainder %s", sr.Key, refund, sr.Refund)
		}
	}
	if sr.Kind == "claim" {
		if cr := claimResponse(w, tx.Resp); cr != nil {
			if bigOf(cr.TotalClaimed.Amount).Cmp(sr.Released) != 0 || bigOf(cr.RemainingDeposit.Amount).Cmp(remainingOf(w, sr.Key)) != 0 {
				w.Violate("C11", "C11/claim-response-wrong", "claim response total %s remaining %s; model released %s remaining %s", cr.TotalClaimed, cr.RemainingDeposit, sr.Released, remainingOf(w, sr.Key))
			}
		}
	}
}

func remainingOf(w *World, key string) *big.Int {
	if st := w.M.Str.Streams[key]; st != nil {
		return st.Remaining
	}
	return new(big.Int)
}

func (m *monC11) compare(w *World, ctx sdk.Context, sender, receiver, kinds string) {
	key := skey(sender, receiver)
	ms := w.M.Str.Streams[key]
	q, err := streamQuery(w, ctx, sender, receiver)
	if ms == nil {
		if err == nil {
			w.Violate("C11", "C11/stream-exists-after-cancel", "stream %s still served after %s", key, kinds)
		}
		return
	}
	if err != nil {
		w.Violate("C11", "C11/stream-not-found", "stream %s of the model not found after %s: %v", key, kinds, err)
		return
	}
	w.Probe("c11.stream-compared")
	if q.Deposit.Amount.BigInt().Cmp(ms.Remaining) != 0 || q.Deposit.Denom != ms.Denom {
		w.Violate("C11", "C11/remaining-deposit-differs", "after %s stream %s holds %s, model %s%s", kinds, key, q.Deposit, ms.Remaining, ms.Denom)
	}
	if big.NewInt(q.FlowRate).Cmp(ms.Rate) != 0 {
		w.Violate("C11", "C11/flow-rate-differs", "after %s stream %s rate %d, model %s", kinds, key, q.FlowRate, ms.Rate)
	}
	if ms.ZeroOverflow {
		w.Probe("c11.zero-time-beyond-year-9999")
		// the statement's zero time is not representable: any advertised time before the model's is a violation
		if q.DepositZeroTime.Before(maxTime.Add(-time.Hour)) && ms.Remaining.Sign() > 0 {
			w.Violate("C11", "C11/zero-time-wrong/unrepresentable", "after %s stream %s advertises deposit-zero time %s but deposit/rate lasts beyond year 9999", kinds, key, q.DepositZeroTime.Format(time.RFC3339))
		}
	} else if !q.DepositZeroTime.Equal(ms.Zero) {
		cl := "C11/zero-time-wrong"
		if ms.Zero.Sub(w.Now) > 290*365*24*time.Hour || ms.Zero.Sub(w.Now) < 0 && ms.Zero.After(w.Now) {
			cl += "/beyond-292-years"
		}
		w.Violate("C11", cl, "after %s stream %s advertises deposit-zero time %s, funding time + floor(deposit/rate) s = %s", kinds, key, q.DepositZeroTime.Format(time.RFC3339Nano), ms.Zero.Format(time.RFC3339Nano))
	}
	// third sentence, on the advertised figures themselves: remaining >= rate x whole seconds from the last release to the zero time
	// (an empty stream has nothing left to drain: its advertised time is not judged)
	if q.DepositZeroTime.After(q.LastOutflowTime) && q.Deposit.Amount.IsPositive() {
		need := new(big.Int).Mul(big.NewInt(q.FlowRate), wholeSeconds(q.LastOutflowTime, q.DepositZeroTime))
		if q.Deposit.Amount.BigInt().Cmp(need) < 0 {
			w.Violate("C11", "C11/deposit-cannot-sustain-rate-until-zero-time", "after %s stream %s: remaining %s < rate %d x %s s (last release %s, zero time %s): the receiver can drain it before the advertised time", kinds, key, q.Deposit, q.FlowRate, wholeSeconds(q.LastOutflowTime, q.DepositZeroTime), q.LastOutflowTime.Format(time.RFC3339), q.DepositZeroTime.Format(time.RFC3339))
		}
	}
}

// ---------------------------------------------------------------------------------------------
// C12 — stream funds are never stranded

type monC12 struct{ BaseMonitor }

func (m *monC12) Name() string  { return "C12" }
func (m *monC12) Init(w *World) { w.armedShadow = w.armedShadow || w.PropOverride == "C12" }

const panicCode = 111222

func isPanicResult(code uint32, log string) bool {
	return code == panicCode || strings.Contains(log, "recovered:") || strings.Contains(log, "panic")
}

func (m *monC12) AfterTx(w *World, tx *TxCtx) {
	leaves := streamLeaves(tx)
	if len(leaves) == 0 {
		return
	}
	// only panics raised inside the stream module count (another message of the same tx may be the culprit)
	if isPanicResult(tx.Resp.Code, tx.Resp.Log) && !strings.Contains(tx.Resp.Log, "out of gas") && strings.Contains(tx.Resp.Log, "mainchain/x/stream") {
		w.Violate("C12", "C12/stream-operation-panics/"+panicSite(tx.Resp.Log), "tx %d/%d (%s) aborted with a panic: %s", tx.Block, tx.Idx, kindsOf(tx), trunc(tx.Resp.Log, 200))
		return
	}
	// a real claim / cancel / affordable top-up on a funded stream must succeed
	// (the gas limit is read from the result: a replayed transaction carries the limit of the bytes
	// that are delivered again, not of the spec that asked for the replay)
	if len(Flatten(tx.Msgs)) != 1 || !tx.AntePassed || tx.Spec.Gas < ampleGas || tx.Resp.GasWanted < ampleGas || tx.Resp.Code == 0 || strings.Contains(tx.Resp.Log, "out of gas") {
		return
	}
	pre, _ := tx.Stash["c12.pre"].(*c12Pre)
	if pre == nil || !pre.Funded {
		return
	}
	kind := msgKind(leaves[0])
	switch kind {
	case "str.claim", "str.cancel":
		w.Violate("C12", "C12/"+kind[4:]+"-on-funded-stream-fails", "%s on a stream holding %s failed: code %d %s", kind, pre.Deposit, tx.Resp.Code, trunc(tx.Resp.Log, 160))
	case "str.topup":
		if pre.Affordable && pre.SameDenom && pre.ZeroRepresentable {
			w.Violate("C12", "C12/topup-on-funded-stream-fails", "affordable top-up on a stream holding %s failed: code %d %s", pre.Deposit, tx.Resp.Code, trunc(tx.Resp.Log, 160))
		}
	}
}

type c12Pre struct {
	Funded, Affordable, SameDenom, ZeroRepresentable bool
	Deposit                                          string
}

func (m *monC12) BeforeTx(w *World, tx *TxCtx) {
	leaves := streamLeaves(tx)
	if len(leaves) != 1 || len(Flatten(tx.Msgs)) != 1 {
		return
	}
	ctx := w.DCtx()
	s, r := streamParties(leaves[0])
	q, err := streamQuery(w, ctx, s, r)
	if err != nil {
		return
	}
	p := &c12Pre{Funded: q.Deposit.Amount.IsPositive(), Deposit: q.Deposit.String()}
	if t, ok := leaves[0].(*streamtypes.MsgTopUpDeposit); ok {
		sa, err := sdk.AccAddressFromBech32(s)
		if err == nil {
			sp := w.Ref.App.BankKeeper.SpendableCoins(ctx, sa).AmountOf(t.Deposit.Denom)
			need := new(big.Int).Set(t.Deposit.Amount.BigInt()) // may exceed what an sdk.Int can add to
			if tx.Payer.Equals(sa) {
				need.Add(need, tx.Fee.AmountOf(t.Deposit.Denom).BigInt())
			}
			p.Affordable = t.Deposit.Amount.IsPositive() && sp.BigInt().Cmp(need) >= 0
		}
		p.SameDenom = t.Deposit.Denom == q.Deposit.Denom
		// the new zero time must be representable for the statement to apply
		base := q.DepositZeroTime
		if !base.After(w.Now) {
			base = w.Now
		}
		_, over := addSeconds(base, floorDiv(t.Deposit.Amount.BigInt(), big.NewInt(q.FlowRate)))
		p.ZeroRepresentable = !over
	}
	tx.Stash["c12.pre"] = p
}

func panicSite(log string) string {
	switch {
	case strings.Contains(log, "Int64() out of bound"):
		return "int64-out-of-bound"
	case strings.Contains(log, "overflow"):
		return "overflow"
	case strings.Contains(log, "negative coin amount"):
		return "negative-coin"
	case strings.Contains(log, "invalid coin denom") || strings.Contains(log, "invalid denom"):
		return "coin-denom"
	}
	return "other"
}

// AfterBlock: what-if probes — from every reachable state the exit operations are enabled.
func (m *monC12) AfterBlock(w *World) {
	ctx := w.CCtx()
	streams, err := allStreams(w, ctx)
	if err != nil {
		w.Violate("C12", "C12/streams-query-error", "%v", err)
		return
	}
	router := w.Ref.App.MsgServiceRouter()
	for _, s := range streams {
		if !s.Stream.Deposit.Amount.IsPositive() {
			continue
		}
		try := func(name string, msg sdk.Msg) {
			cctx, _ := ctx.CacheContext()
			cctx = cctx.WithBlockTime(w.Now).WithEventManager(sdk.NewEventManager())
			var herr error
			p, _ := safely(func() {
				if verr := msg.ValidateBasic(); verr != nil {
					herr = verr
					return
				}
				_, herr = router.Handler(msg)(cctx, msg)
			})
			w.Probe("c12.probe." + name)
			if p != "" {
				w.Violate("C12", "C12/probe-"+name+"-panics/"+panicSite(p), "%s on stream %s->%s holding %s (rate %d) panics: %s", name, s.Sender, s.Receiver, s.Stream.Deposit, s.Stream.FlowRate, trunc(p, 160))
			} else if herr != nil {
				w.Violate("C12", "C12/probe-"+name+"-fails", "%s on stream %s->%s holding %s (rate %d) fails: %v", name, s.Sender, s.Receiver, s.Stream.Deposit, s.Stream.FlowRate, herr)
			}
		}
		try("claim", &streamtypes.MsgClaimStream{Sender: s.Sender, Receiver: s.Receiver})
		if s.Stream.Cancellable {
			try("cancel", &streamtypes.MsgCancelStream{Sender: s.Sender, Receiver: s.Receiver})
		}
		sa, err := sdk.AccAddressFromBech32(s.Sender)
		if err == nil && w.Ref.App.BankKeeper.SpendableCoins(ctx, sa).AmountOf(s.Stream.Deposit.Denom).IsPositive() {
			try("topup", &streamtypes.MsgTopUpDeposit{Sender: s.Sender, Receiver: s.Receiver, Deposit: sdk.NewInt64Coin(s.Stream.Deposit.Denom, 1)})
		}
	}
}

var _ = fmt.Sprint
