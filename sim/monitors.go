package simnet

// monitors.go — registry of the oracles per property.

func MonitorsFor(prop string) []Monitor {
	switch prop {
	case "C02":
		return []Monitor{&monC02{}}
	case "C03":
		return []Monitor{&monC03{}}
	case "C04":
		return []Monitor{&monC04{}}
	case "C05":
		return []Monitor{&monC05{}}
	case "C17":
		return []Monitor{&monC17{}}
	}
	return nil
}
