package simnet

// monitors.go — registry of the oracles per property.

// MonitorsFor: the monitors of the property plus the one that watches the query connection.
func MonitorsFor(prop string) []Monitor {
	return append(monitorsOf(prop), &monServed{})
}

func monitorsOf(prop string) []Monitor {
	switch prop {
	case "C02":
		return []Monitor{&monC02{}}
	case "C03":
		return []Monitor{&monC03{}}
	case "C04":
		return []Monitor{&monC04{}}
	case "C05":
		return []Monitor{&monC05{}}
	case "C06":
		return []Monitor{&monC06{}}
	case "C07":
		return []Monitor{&monC07{}}
	case "C08":
		return []Monitor{&monC08{}}
	case "C09":
		return []Monitor{&monC09{}}
	case "C10":
		return []Monitor{&monC10{}}
	case "C11":
		return []Monitor{&monC11{}}
	case "C12":
		return []Monitor{&monC12{}}
	case "C13":
		return []Monitor{&monC13{}}
	case "C14":
		return []Monitor{&monC14{}}
	case "C16":
		// "takes effect": the long-running monitors that read parameters from the models / queries
		// run on behalf of C16 (their violations are reported under C16 via PropOverride)
		return []Monitor{&monC16{}, &monC03{}, &monC06{}, &monC08{}, &monC10{}}
	case "C20":
		return []Monitor{&monC20{}}
	case "C15":
		return []Monitor{&monC15{}}
	case "C18":
		// app world: the order / registry / stream models run on behalf of C18 over boundary-biased
		// identifiers; store world: monC18
		return []Monitor{&monC18{}, &monC03{}, &monC07{}, &monC08{}, &monC09{}, &monC11{}}
	case "C17":
		return []Monitor{&monC17{}}
	}
	return nil
}
