package simnet

// monitors.go — registry of the oracles per property.

func MonitorsFor(prop string) []Monitor {
	switch prop {
	}
	return nil
}
