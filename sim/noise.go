package simnet

// noise.go — calls on the non-consensus ABCI surfaces. CometBFT drives an application through
// four connections; only the consensus one may influence what the chain computes. The mempool
// connection (CheckTx, new and recheck), the query connection (Query incl. /app/simulate, store
// queries with proofs, historical gRPC queries; Info) and the proposal calls (PrepareProposal on
// the proposer, ProcessProposal on every validator) run the same ante decorators and keepers on
// throw-away branches of the state. The scheduler places such calls between any two consensus
// calls of the reference node (never inside Commit); the replicas do not receive them (or receive
// different ones: see NodeEvent.Proposal), so anything that leaks out of a throw-away branch - a
// keeper field, a package variable, a write through the wrong context - shows as a different
// transaction result or app hash on the next compared height.

import (
	"fmt"

	abci "github.com/cometbft/cometbft/abci/types"
	sdk "github.com/cosmos/cosmos-sdk/types"
)

// signFor signs the transaction for the account state seen through ctx, without any bookkeeping.
func (w *World) signFor(ts *TxSpec, ctx sdk.Context) []byte {
	if ts.Replay {
		return w.lastBytes[w.Actors[actorIdx(ts.Signer, len(w.Actors))].Idx]
	}
	signer := w.Actors[actorIdx(ts.Signer, len(w.Actors))]
	accNum, seq := w.accNumSeq(ctx, signer.Addr)
	var pAcc, pSeq uint64
	if ts.Payer > 0 {
		pAcc, pSeq = w.accNumSeq(ctx, AddrOf(w.Actors, ts.Payer-1))
	}
	bz, _, err := SignTxWith(w.Ref.App.TxConfig(), w.Actors, ts, accNum, seq, func(a sdk.AccAddress) (uint64, uint64) { return w.accNumSeq(ctx, a) }, pAcc, pSeq)
	if err != nil {
		return nil
	}
	return bz
}

// blockTxBytes signs all transactions of the block against the committed (check) state.
func (w *World) blockTxBytes(b *BlockSpec) [][]byte {
	cctx := w.Ref.App.BaseApp.NewContext(true, w.Hdr)
	var out [][]byte
	for i := range b.Txs {
		if b.Txs[i].CheckOnly || b.Txs[i].SimOnly {
			continue
		}
		if bz := w.signFor(&b.Txs[i], cctx); len(bz) > 0 {
			out = append(out, bz)
		}
	}
	return out
}

var storeNames = []string{"enterprise", "wrkchain", "beacon", "stream", "bank", "acc"}

func (w *World) runNoise(b *BlockSpec, pos int, height int64) {
	if len(w.Log) == 0 {
		return // before the first commit the side states do not hold the genesis state yet
	}
	for ni := range b.Noise {
		ns := &b.Noise[ni]
		if ns.Pos != pos {
			continue
		}
		a := w.Ref.App
		var out string
		p, _ := safely(func() {
			switch ns.Kind {
			case "simulate", "recheck":
				if len(b.Txs) == 0 {
					return
				}
				ts := &b.Txs[ns.Tx%len(b.Txs)]
				var ctx sdk.Context
				if ns.Kind == "simulate" && w.InBlock && ns.N%2 == 0 {
					ctx = w.DCtx() // signed for the state the transaction will meet in the block
				} else {
					ctx = a.BaseApp.NewContext(true, w.Hdr)
				}
				bz := w.signFor(ts, ctx)
				if len(bz) == 0 {
					return
				}
				if ns.Kind == "simulate" {
					if w.txIsIBC(bz) {
						w.ibcSimulated = true
					}
					r := a.Query(abci.RequestQuery{Path: "/app/simulate", Data: bz})
					out = fmt.Sprintf("code=%d", r.Code)
				} else {
					r := a.CheckTx(abci.RequestCheckTx{Tx: bz, Type: abci.CheckTxType_Recheck})
					out = fmt.Sprintf("code=%d", r.Code)
				}
			case "prepare":
				r := a.PrepareProposal(abci.RequestPrepareProposal{MaxTxBytes: 1 << 20, Txs: w.blockTxBytes(b), Height: height, Time: w.Now, ProposerAddress: w.Hdr.ProposerAddress})
				out = fmt.Sprintf("txs=%d", len(r.Txs))
			case "process":
				r := a.ProcessProposal(abci.RequestProcessProposal{Txs: w.blockTxBytes(b), Height: height, Time: w.Now, ProposerAddress: w.Hdr.ProposerAddress, Hash: []byte("simnet-block-hash-0123456789abcd")})
				out = fmt.Sprintf("status=%d", r.Status)
			case "info":
				r := a.Info(abci.RequestInfo{})
				out = fmt.Sprintf("h=%d", r.LastBlockHeight)
			case "store":
				name := storeNames[int(ns.N)%len(storeNames)]
				r := a.Query(abci.RequestQuery{Path: "/store/" + name + "/key", Data: []byte{byte(ns.Tx)}, Prove: ns.N%2 == 1})
				out = fmt.Sprintf("code=%d", r.Code)
			case "hist":
				h := int64(1 + ns.N%uint64(len(w.Log)))
				paths := []string{"/mainchain.enterprise.v1.Query/TotalLocked", "/mainchain.wrkchain.v1.Query/Params", "/mainchain.beacon.v1.Query/Params", "/mainchain.stream.v1.Query/Params", "/mainchain.enterprise.v1.Query/EnterpriseUndPurchaseOrders", "/mainchain.stream.v1.Query/Streams"}
				r := a.Query(abci.RequestQuery{Path: paths[ns.Tx%len(paths)], Height: h})
				out = fmt.Sprintf("code=%d", r.Code)
			}
		})
		w.Fault("abci." + ns.Kind)
		if p != "" {
			// Query, CheckTx and the proposal calls recover internally; a panic that escapes one of
			// them would take the node process down from a connection anyone can reach
			w.Ev("NOISE %s pos=%d PANIC", ns.Kind, pos)
			w.Ev("# panic %s", trunc(p, 200))
			w.Probe("abci.noise-panic." + ns.Kind)
			continue
		}
		w.Ev("NOISE %s pos=%d %s", ns.Kind, pos, out)
	}
}

// replicaProposal makes a replica do what a validator does before executing a block.
func (w *World) replicaProposal(n *Node, rec *BlockRec, kind string) {
	if kind == "" {
		return
	}
	a := n.App
	val := ValidatorKey().PubKey().Address()
	_, _ = safely(func() {
		if kind == "prepare" {
			a.PrepareProposal(abci.RequestPrepareProposal{MaxTxBytes: 1 << 20, Txs: rec.Txs, Height: rec.Height, Time: rec.Time, ProposerAddress: val})
		}
		a.ProcessProposal(abci.RequestProcessProposal{Txs: rec.Txs, Height: rec.Height, Time: rec.Time, ProposerAddress: val, Hash: []byte("simnet-block-hash-0123456789abcd")})
	})
	w.Fault("node.proposal." + kind)
}
