package simnet

// run.go — one run = one seed: build the world, arm the property's monitors, execute inside a
// synctest bubble (fake wall clock), collect the result.

import (
	"crypto/sha256"
	"encoding/hex"
	"fmt"
	"os"
	"sort"
	"strings"
	"testing"
	"testing/synctest"
	"time"
)

type RunResult struct {
	Seed       int64          `json:"seed"`
	Property   string         `json:"property"`
	Violations []Violation    `json:"violations,omitempty"`
	Blocks     int            `json:"blocks"`
	Txs        int            `json:"txs"`
	TxOK       int            `json:"tx_ok"`
	AnteFail   int            `json:"ante_fail"`
	Checks     int            `json:"checks"`
	CheckOK    int            `json:"check_ok"`
	SimSeconds int64          `json:"sim_seconds"`
	Faults     map[string]int `json:"faults"`
	Probes     map[string]int `json:"probes"`
	Ops        map[string]int `json:"ops"`
	States     []string       `json:"states,omitempty"` // distinct module-state digests (short)
	FaultCtx   []string       `json:"fault_ctx,omitempty"`
	Halted     string         `json:"halted,omitempty"`
	EndedBy    string         `json:"ended_by,omitempty"`
	Flags      []string       `json:"flags,omitempty"`
	Signature  string         `json:"signature"` // op/outcome bigram-set digest
	EventHash  string         `json:"event_hash"`
	WallMs     int64          `json:"wall_ms"`
	Nontrivial bool           `json:"nontrivial"`
	Leaked     bool           `json:"leaked_goroutine,omitempty"`
	Sample     string         `json:"sample,omitempty"`
	Trace      *Trace         `json:"-"`
	BlockLog   []BlockRec     `json:"-"`
	AppState   []byte         `json:"-"`
	Twin       string         `json:"twin,omitempty"`
	EventLog   []byte         `json:"-"`
}

// Execute runs a trace (with an optional generator) under the monitors of prop.
func Execute(t *testing.T, tr *Trace, gen *Gen, prop string, bubble bool) *RunResult {
	start := time.Now()
	var w *World
	// a replica on goleveldb uses real files: such runs execute outside the bubble (real I/O does
	// not belong in one) on a scratch directory that is removed when the run ends
	scratch := ""
	for _, nc := range tr.Knobs.Nodes {
		if nc.Backend == "goleveldb" {
			bubble = false
			if scratch == "" {
				base := os.Getenv("VERIF_SCRATCH")
				d, err := os.MkdirTemp(base, "simnet-ldb-")
				if err != nil {
					t.Fatalf("scratch directory: %v", err)
				}
				scratch = d
				defer os.RemoveAll(d)
			}
		}
	}
	body := func() {
		w = NewWorld(tr, MonitorsFor(prop))
		w.scratch = scratch
		w.Gen = gen
		w.InBubble = bubble
		w.StopOnViolation = true
		w.PropOverride = prop
		w.KnownClasses = map[string]bool{}
		for _, c := range strings.Split(os.Getenv("SIM_KNOWN"), ",") {
			if c != "" {
				w.KnownClasses[c] = true
			}
		}
		w.Run()
	}
	leaked := false
	if bubble {
		func() {
			defer func() {
				if r := recover(); r != nil {
					s := fmt.Sprint(r)
					if strings.Contains(s, "deadlock") && w != nil && w.EndedBy != "" || strings.Contains(s, "blocked goroutines remain") {
						leaked = true
						return
					}
					if strings.Contains(s, "deadlock") {
						leaked = true
						return
					}
					panic(r)
				}
			}()
			synctest.Test(t, func(t *testing.T) { body() })
		}()
	} else {
		body()
	}
	res := &RunResult{Seed: tr.Seed, Property: prop, Violations: w.Viol, Blocks: w.St.Blocks, Txs: w.St.Txs, TxOK: w.St.TxOK, AnteFail: w.St.AnteFail,
		Checks: w.St.Checks, CheckOK: w.St.CheckOK, SimSeconds: w.St.SimSeconds, Faults: w.St.Faults, Probes: w.St.Probes, Ops: w.St.OpOutcome,
		Halted: w.St.Halted, EndedBy: w.EndedBy, Flags: tr.Flags, EventHash: w.EventLogHash(), Trace: tr, EventLog: w.EventLog(), Leaked: leaked, BlockLog: w.Log, AppState: w.AppState}
	for _, k := range sortedKeys(w.St.StateDigests) {
		res.States = append(res.States, k)
	}
	res.FaultCtx = sortedKeys(w.St.FaultCtx)
	res.Signature = signatureOf(w)
	nf := 0
	for _, v := range w.St.Faults {
		nf += v
	}
	res.Nontrivial = w.St.TxOK > 0 && nf > 0
	res.WallMs = time.Since(start).Milliseconds()
	return res
}

// signatureOf: the set of (operation kind, outcome) pairs together with the set of fault kinds
// that fired — the stated measure of "distinct interleavings" in the evidence.
func signatureOf(w *World) string {
	var parts []string
	for _, k := range sortedKeys(w.St.OpOutcome) {
		parts = append(parts, k)
	}
	for _, k := range sortedKeys(w.St.Faults) {
		parts = append(parts, "F:"+k)
	}
	sort.Strings(parts)
	h := sha256.Sum256([]byte(strings.Join(parts, ";") + fmt.Sprintf("|b%d", w.St.Blocks/8)))
	return hex.EncodeToString(h[:8])
}
