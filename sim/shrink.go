package simnet

// shrink.go — minimisation of a failing trace: delta-debugging over blocks, transactions,
// messages, node events and queries, accepting a candidate only if the same violation class
// still fires. The result is what is written as the replay file.

import (
	"testing"
	"time"
)

type Shrinker struct {
	T        *testing.T
	Prop     string
	Class    string
	Budget   time.Duration
	MaxRuns  int
	Runs     int
	deadline time.Time
	Bubble   bool
}

func hasClass(res *RunResult, class string) (bool, *Violation) {
	for i := range res.Violations {
		if res.Violations[i].Class == class {
			return true, &res.Violations[i]
		}
	}
	return false, nil
}

func (s *Shrinker) try(tr *Trace) (bool, *Violation) {
	if s.Runs >= s.MaxRuns || time.Now().After(s.deadline) {
		return false, nil
	}
	s.Runs++
	// C01 violations may be nondeterministic in the code under test (map order): give a candidate
	// a few executions before deciding it no longer fails, or minimisation stops at the first
	// execution that happens to pass
	attempts := 1
	if s.Prop == "C01" {
		attempts = 4
	}
	for a := 0; a < attempts; a++ {
		c := tr.Clone()
		res := Execute(s.T, c, nil, s.Prop, s.Bubble)
		if s.Prop == "C01" && c.HasFlag("twin") && len(res.Violations) == 0 {
			applyTwin(res, c)
		}
		if ok, v := hasClass(res, s.Class); ok {
			return ok, v
		}
		if time.Now().After(s.deadline) {
			break
		}
	}
	return false, nil
}

func (s *Shrinker) Minimise(tr *Trace) *Trace {
	s.deadline = time.Now().Add(s.Budget)
	best := tr.Clone()
	ok, v := s.try(best)
	if !ok {
		return best // not reproducible without the generator: report as is
	}
	// 1. truncate after the violating block
	if v.Block+1 < len(best.Blocks) {
		c := best.Clone()
		c.Blocks = c.Blocks[:v.Block+1]
		if ok, _ := s.try(c); ok {
			best = c
		}
	}
	// 2. drop replicas / node events / queries wholesale
	{
		c := best.Clone()
		c.Knobs.Nodes = nil
		for i := range c.Blocks {
			c.Blocks[i].Nodes = nil
		}
		if ok, _ := s.try(c); ok {
			best = c
		}
		c = best.Clone()
		for i := range c.Blocks {
			c.Blocks[i].Queries = nil
		}
		if ok, _ := s.try(c); ok {
			best = c
		}
		c = best.Clone()
		for i := range c.Blocks {
			c.Blocks[i].Noise = nil
		}
		c.Knobs.RefMempool = false
		if ok, _ := s.try(c); ok {
			best = c
		} else {
			// keep only the noise of one block at a time, latest first
			for i := len(best.Blocks) - 1; i >= 0; i-- {
				if len(best.Blocks[i].Noise) == 0 {
					continue
				}
				c = best.Clone()
				c.Blocks[i].Noise = nil
				if ok, _ := s.try(c); ok {
					best = c
				}
			}
		}
	}
	// 3. remove chunks of transactions (ddmin over the flattened tx list)
	type pos struct{ b, t int }
	flat := func(t *Trace) []pos {
		var ps []pos
		for bi := range t.Blocks {
			for ti := range t.Blocks[bi].Txs {
				ps = append(ps, pos{bi, ti})
			}
		}
		return ps
	}
	removeTxs := func(t *Trace, drop map[pos]bool) *Trace {
		c := t.Clone()
		for bi := range c.Blocks {
			var keep []TxSpec
			for ti := range c.Blocks[bi].Txs {
				if !drop[pos{bi, ti}] {
					keep = append(keep, c.Blocks[bi].Txs[ti])
				}
			}
			c.Blocks[bi].Txs = keep
		}
		return c
	}
	for chunk := len(flat(best)) / 2; chunk >= 1; chunk /= 2 {
		progress := true
		for progress {
			progress = false
			ps := flat(best)
			for start := 0; start < len(ps); start += chunk {
				end := start + chunk
				if end > len(ps) {
					end = len(ps)
				}
				drop := map[pos]bool{}
				for _, p := range ps[start:end] {
					drop[p] = true
				}
				c := removeTxs(best, drop)
				if ok, _ := s.try(c); ok {
					best = c
					progress = true
					break
				}
				if time.Now().After(s.deadline) || s.Runs >= s.MaxRuns {
					return best
				}
			}
		}
	}
	// 4. remove empty blocks (merging their time step into the next block)
	for bi := len(best.Blocks) - 2; bi >= 0; bi-- {
		if len(best.Blocks[bi].Txs) > 0 || best.Blocks[bi].Export {
			continue
		}
		c := best.Clone()
		c.Blocks[bi+1].DtMs += c.Blocks[bi].DtMs
		c.Blocks = append(c.Blocks[:bi], c.Blocks[bi+1:]...)
		if ok, _ := s.try(c); ok {
			best = c
		}
	}
	// 5. per-tx simplification: drop faults, drop single messages of multi-message txs
	for bi := range best.Blocks {
		for ti := range best.Blocks[bi].Txs {
			ts := best.Blocks[bi].Txs[ti]
			if ts.SigFault != "" || ts.SeqDelta != 0 || ts.Check || ts.Granter != 0 || ts.Payer != 0 {
				c := best.Clone()
				x := &c.Blocks[bi].Txs[ti]
				x.SigFault, x.SeqDelta, x.Check, x.Granter, x.Payer = "", 0, false, 0, 0
				if ok, _ := s.try(c); ok {
					best = c
				}
			}
			for mi := len(best.Blocks[bi].Txs[ti].Msgs) - 1; mi >= 0 && len(best.Blocks[bi].Txs[ti].Msgs) > 1; mi-- {
				c := best.Clone()
				x := &c.Blocks[bi].Txs[ti]
				x.Msgs = append(x.Msgs[:mi], x.Msgs[mi+1:]...)
				if ok, _ := s.try(c); ok {
					best = c
				}
			}
		}
	}
	// 6. time steps to one second where that keeps the violation
	for bi := range best.Blocks {
		if best.Blocks[bi].DtMs != 1000 {
			c := best.Clone()
			c.Blocks[bi].DtMs = 1000
			if ok, _ := s.try(c); ok {
				best = c
			}
		}
	}
	best.Class = s.Class
	return best
}
