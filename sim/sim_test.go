package simnet

// sim_test.go — process entry points. The harness is a test binary because testing/synctest
// needs a *testing.T; the /verif/check wrapper starts one OS process per worker.

import (
	"bufio"
	"encoding/json"
	"fmt"
	"os"
	"path/filepath"
	"regexp"
	"strconv"
	"strings"
	"testing"
	"time"
)

func envInt(name string, def int64) int64 {
	if s := os.Getenv(name); s != "" {
		if v, err := strconv.ParseInt(s, 10, 64); err == nil {
			return v
		}
	}
	return def
}

func splitmix(x uint64) uint64 {
	x += 0x9e3779b97f4a7c15
	z := x
	z = (z ^ (z >> 30)) * 0xbf58476d1ce4e5b9
	z = (z ^ (z >> 27)) * 0x94d049bb133111eb
	return z ^ (z >> 31)
}

func runSeed(base int64, prop string, worker, i int64) int64 {
	h := splitmix(uint64(base))
	for _, c := range []byte(prop) {
		h = splitmix(h ^ uint64(c))
	}
	h = splitmix(h ^ uint64(worker)<<32 ^ uint64(i))
	return int64(h >> 1)
}

var unsafeChars = regexp.MustCompile(`[^A-Za-z0-9_.-]+`)

func classFile(class string) string { return unsafeChars.ReplaceAllString(class, "_") }

// TestWorker runs seeds until the wall budget is used.
func TestWorker(t *testing.T) {
	prop := os.Getenv("SIM_PROP")
	if prop == "" {
		t.Skip("SIM_PROP not set")
	}
	tier := os.Getenv("SIM_TIER")
	if tier == "" {
		tier = "quick"
	}
	base := envInt("VERIF_SEED", 1)
	worker := envInt("SIM_WORKER", 0)
	budget := time.Duration(envInt("SIM_BUDGET_S", 30)) * time.Second
	maxRuns := envInt("SIM_MAXRUNS", 1<<40)
	out := os.Getenv("SIM_OUT")
	if out == "" {
		out = os.TempDir()
	}
	f, err := os.Create(filepath.Join(out, fmt.Sprintf("worker-%d.jsonl", worker)))
	if err != nil {
		t.Fatal(err)
	}
	defer f.Close()
	bw := bufio.NewWriter(f)
	defer bw.Flush()
	start := time.Now()
	seen := map[string]bool{}
	bubble := os.Getenv("SIM_NOBUBBLE") == ""
	for i := int64(0); i < maxRuns && time.Since(start) < budget; i++ {
		seed := runSeed(base, prop, worker, i)
		tr, g := NewRun(prop, seed, tier)
		res := Execute(t, tr, g, prop, bubble)
		if prop == "C01" && len(res.Violations) == 0 && (tier == "thorough" && i%3 == 0 || tier != "thorough" && i%8 == 0) {
			applyTwin(res, tr)
		}
		if i < 2 || len(res.Violations) > 0 {
			res.Sample = sampleOf(res.Trace)
		}
		for _, v := range res.Violations {
			if !seen[v.Class] {
				seen[v.Class] = true
				tr.Class = v.Class
				_ = tr.Save(filepath.Join(out, fmt.Sprintf("viol-%s-%d.json", classFile(v.Class), seed)))
			}
		}
		bz, _ := json.Marshal(res)
		bw.Write(bz)
		bw.WriteByte('\n')
		bw.Flush()
	}
}

// sampleOf abridges a trace for the evidence file.
func sampleOf(tr *Trace) string {
	var sb strings.Builder
	fmt.Fprintf(&sb, "seed=%d flags=%v actors=%d replicas=%d blocks=%d:", tr.Seed, tr.Flags, tr.Knobs.NActors, len(tr.Knobs.Nodes), len(tr.Blocks))
	n := 0
	for bi, b := range tr.Blocks {
		if n > 24 {
			sb.WriteString(" ...")
			break
		}
		fmt.Fprintf(&sb, " [b%d +%dms", bi, b.DtMs)
		for _, ts := range b.Txs {
			sb.WriteString(" ")
			if ts.Replay {
				sb.WriteString("replay")
			}
			for mi, m := range ts.Msgs {
				if mi > 0 {
					sb.WriteString("+")
				}
				sb.WriteString(m.T)
				if len(m.Inner) > 0 {
					sb.WriteString("(" + m.Inner[0].T + ")")
				}
			}
			if ts.SigFault != "" {
				sb.WriteString("!" + ts.SigFault)
			}
			n++
		}
		for _, ne := range b.Nodes {
			if ne.Kind != "follow" {
				fmt.Fprintf(&sb, " n%d:%s@%s", ne.Node, ne.Kind, ne.At)
			}
		}
		sb.WriteString("]")
	}
	return sb.String()
}

// applyTwin runs the out-of-process twin for a finished C01 run and books its verdict.
func applyTwin(res *RunResult, tr *Trace) {
	msg, ran := RunTwin(res)
	if !ran {
		if msg != "" {
			res.Twin = "not-run: " + msg
		}
		return
	}
	if res.Faults == nil {
		res.Faults = map[string]int{}
	}
	res.Faults["node.out_of_process_twin"]++
	res.Twin = "ok"
	if msg != "" {
		res.Twin = msg
		if !tr.HasFlag("twin") {
			tr.Flags = append(tr.Flags, "twin")
		}
		res.Violations = append(res.Violations, Violation{Property: "C01", Class: "C01/out-of-process-twin-differs", Detail: msg, Block: len(tr.Blocks) - 1, Tx: -1})
	}
}

// TestTwin is the child side of the out-of-process twin.
func TestTwin(t *testing.T) {
	path := os.Getenv("SIM_TWIN")
	if path == "" {
		t.Skip()
	}
	twinMain(path, os.Getenv("SIM_TWIN_DIR"))
}

// TestReplay re-executes a replay file and prints the violation classes it reaches.
func TestReplay(t *testing.T) {
	path := os.Getenv("SIM_REPLAY")
	if path == "" {
		t.Skip("SIM_REPLAY not set")
	}
	tr, err := LoadTrace(path)
	if err != nil {
		t.Fatal(err)
	}
	prop := tr.Property
	if p := os.Getenv("SIM_PROP"); p != "" {
		prop = p
	}
	// A violation that stems from Go's map iteration order (or another source the runtime gives no
	// seam for) cannot be pinned by the trace: the same schedule shows it with some probability per
	// execution. Replays of C01 traces are therefore repeated until the class shows or the retry
	// budget is used; every other property replays exactly, first time.
	retries := envInt("SIM_RETRIES", 1)
	if prop == "C01" && os.Getenv("SIM_RETRIES") == "" {
		retries = 16
	}
	var res *RunResult
	for a := int64(0); a < retries; a++ {
		res = Execute(t, tr.Clone(), nil, prop, os.Getenv("SIM_NOBUBBLE") == "")
		if prop == "C01" && tr.HasFlag("twin") && len(res.Violations) == 0 {
			applyTwin(res, tr)
		}
		if len(res.Violations) > 0 {
			if a > 0 {
				fmt.Printf("REPLAY-ATTEMPTS %d (violation not reproduced by the first execution: nondeterministic in the code under test)\n", a+1)
			}
			break
		}
	}
	classes := []string{}
	for _, v := range res.Violations {
		classes = append(classes, v.Class)
		fmt.Printf("REPLAY-VIOLATION class=%s block=%d detail=%s\n", v.Class, v.Block, v.Detail)
	}
	fmt.Printf("REPLAY-CLASSES %s\n", strings.Join(classes, ","))
	fmt.Printf("REPLAY-EVENTHASH %s\n", res.EventHash)
	if os.Getenv("SIM_LOG") != "" {
		fmt.Printf("%s", res.EventLog)
	}
}

// TestShrink minimises a failing trace.
func TestShrink(t *testing.T) {
	path := os.Getenv("SIM_SHRINK")
	if path == "" {
		t.Skip("SIM_SHRINK not set")
	}
	tr, err := LoadTrace(path)
	if err != nil {
		t.Fatal(err)
	}
	class := os.Getenv("SIM_CLASS")
	if class == "" {
		class = tr.Class
	}
	s := &Shrinker{T: t, Prop: tr.Property, Class: class, Budget: time.Duration(envInt("SIM_BUDGET_S", 60)) * time.Second, MaxRuns: int(envInt("SIM_MAXRUNS", 200)), Bubble: os.Getenv("SIM_NOBUBBLE") == ""}
	min := s.Minimise(tr)
	min.Class = class
	outp := os.Getenv("SIM_SHRINK_OUT")
	if outp == "" {
		outp = path + ".min.json"
	}
	if err := min.Save(outp); err != nil {
		t.Fatal(err)
	}
	fmt.Printf("SHRINK runs=%d blocks=%d->%d txs=%d->%d out=%s\n", s.Runs, len(tr.Blocks), len(min.Blocks), tr.NumTxs(), min.NumTxs(), outp)
}

// TestDeterminism prints the event-log hash of a seed (used by `check selftest`).
func TestDeterminism(t *testing.T) {
	prop := os.Getenv("SIM_PROP")
	if prop == "" || os.Getenv("SIM_DET") == "" {
		t.Skip()
	}
	n := envInt("SIM_DET", 5)
	base := envInt("VERIF_SEED", 1)
	for i := int64(0); i < n; i++ {
		seed := runSeed(base, prop, 0, i)
		tr, g := NewRun(prop, seed, "quick")
		res := Execute(t, tr, g, prop, os.Getenv("SIM_NOBUBBLE") == "")
		fmt.Printf("DET %s %d %s\n", prop, seed, res.EventHash)
	}
}
