package simnet

import (
	"os"
	"strconv"
	"testing"
)

func TestSmoke(t *testing.T) {
	seed := int64(1)
	if s := os.Getenv("SIM_SEED"); s != "" {
		seed, _ = strconv.ParseInt(s, 10, 64)
	}
	prop := os.Getenv("SIM_PROP")
	if prop == "" {
		prop = "C01"
	}
	tr, g := NewRun(prop, seed, "quick")
	res := Execute(t, tr, g, prop, true)
	if os.Getenv("SIM_LOG") != "" {
		t.Logf("%s", res.EventLog)
	}
	t.Logf("blocks=%d txs=%d ok=%d antefail=%d checks=%d/%d faults=%v ops=%v halted=%q wall=%dms leaked=%v flags=%v", res.Blocks, res.Txs, res.TxOK, res.AnteFail, res.CheckOK, res.Checks, res.Faults, res.Ops, res.Halted, res.WallMs, res.Leaked, res.Flags)
	for _, v := range res.Violations {
		t.Logf("VIOL %+v", v)
	}
}
