package simnet

// trace.go — the concrete, self-contained description of one run. A Trace is what the generator
// produces, what the executor consumes, what the minimiser shrinks and what a replay file holds.
// Nothing in a trace refers to generator state: actors are indexes, ids and amounts are literals.

import (
	"encoding/json"
	"os"
)

// MsgSpec describes one message. Fields are interpreted per type T:
//
//	ent.raise      A=purchaser  Amt,Denom
//	ent.decide     A=signer     Id=po id  N=1 accept / 2 reject (other values passed through)
//	ent.whitelist  A=signer     B=address N=1 add / 2 remove
//	wrk.register   A=owner      S=[moniker,name,genesis,type]
//	wrk.record     A=owner      Id=wrkchain id N=height S=[block,parent,h1,h2,h3]
//	wrk.purchase   A=owner      Id=wrkchain id N=number
//	bcn.register   A=owner      S=[moniker,name]
//	bcn.record     A=owner      Id=beacon id N=submit time S=[hash]
//	bcn.purchase   A=owner      Id=beacon id N=number
//	str.create     A=sender B=receiver Amt,Denom N=flow rate
//	str.claim      A=receiver B=sender   (note: signer is the receiver)
//	str.topup      A=sender B=receiver Amt,Denom
//	str.update     A=sender B=receiver N=flow rate
//	str.cancel     A=sender B=receiver
//	*.params       A=authority (actor idx, or -1 gov, -2 enterprise module, -3 stream module); P=params
//	bank.send      A=from B=to Amt,Denom   (B may be a negative module code)
//	bank.multisend A=from B=to Amt,Denom
//	authz.grant    A=granter B=grantee S=[msg type url]
//	authz.exec     A=grantee Inner=msgs
//	feegrant.grant A=granter B=grantee
//	gov.submit     A=proposer Inner=msgs (authority inside as given)
//	gov.vote       A=voter Id=proposal
//	stake.delegate A=delegator Amt
//	stake.undelegate A=delegator Amt
//	dist.fundpool  A=depositor Amt,Denom
type MsgSpec struct {
	T     string     `json:"t"`
	A     int        `json:"a"`
	B     int        `json:"b,omitempty"`
	Id    uint64     `json:"id,omitempty"`
	N     uint64     `json:"n,omitempty"`
	Amt   string     `json:"amt,omitempty"`
	Denom string     `json:"denom,omitempty"`
	S     []string   `json:"s,omitempty"`
	Inner []MsgSpec  `json:"inner,omitempty"`
	P     *ParamSpec `json:"p,omitempty"`
	Tag   string     `json:"tag,omitempty"` // generator annotation (intent), ignored by the executor
	// Up: the party named by A is written in the all-upper-case form of its bech32 address (a
	// legal encoding of the same account; wallets and QR codes produce it)
	Up bool `json:"up,omitempty"`
	// UpB: the same for the party named by B (receiver, whitelisted address ...)
	UpB bool `json:"up_b,omitempty"`
}

// ParamSpec carries parameters for the four UpdateParams messages (raw so that invalid values can
// be expressed).
type ParamSpec struct {
	// enterprise
	EntSigners string `json:"ent_signers,omitempty"` // literal string (may be malformed); "@1,2" = actor indexes
	Denom      string `json:"denom,omitempty"`
	MinAccepts uint64 `json:"min_accepts,omitempty"`
	Limit      uint64 `json:"limit,omitempty"`
	// registries
	FeeReg   uint64 `json:"fee_reg,omitempty"`
	FeeRec   uint64 `json:"fee_rec,omitempty"`
	FeePur   uint64 `json:"fee_pur,omitempty"`
	DefLimit uint64 `json:"def_limit,omitempty"`
	MaxLimit uint64 `json:"max_limit,omitempty"`
	// stream
	ValFee string `json:"val_fee,omitempty"` // decimal string; "nil" = nil Dec
}

// TxSpec describes one transaction as the client builds it.
type TxSpec struct {
	Signer    int       `json:"signer"` // actor that signs (and pays unless Payer set)
	Msgs      []MsgSpec `json:"msgs"`
	Fee       string    `json:"fee"` // coins string, "" = none
	Gas       uint64    `json:"gas"`
	Granter   int       `json:"granter,omitempty"`   // 1-based actor idx of fee granter, 0 = none
	Payer     int       `json:"payer,omitempty"`     // 1-based actor idx of an explicit fee payer (co-signs); 0 = the first signer pays
	SigFault  string    `json:"sig_fault,omitempty"` // "", wrong_key, wrong_chain, wrong_accnum, missing
	SeqDelta  int       `json:"seq_delta,omitempty"`
	Replay    bool      `json:"replay,omitempty"` // re-deliver the last bytes this signer produced (duplicate)
	Check     bool      `json:"check,omitempty"`  // pass through CheckTx first (admission recorded); delivered regardless unless CheckOnly
	CheckOnly bool      `json:"check_only,omitempty"`
	// Multi: every account the messages name signs (in the order the chain requires: first
	// appearance over the messages), the first one pays; without it only Signer (and an explicit
	// Payer) sign, whatever the messages name
	Multi   bool   `json:"multi,omitempty"`
	SimOnly bool   `json:"sim_only,omitempty"` // only gas-simulated (/app/simulate), as a wallet does before signing; never delivered
	Tag     string `json:"tag,omitempty"`
}

// NodeEvent is what happens to one replica while the reference executes this block.
type NodeEvent struct {
	Node  int    `json:"node"`             // replica index (1-based; 0 is the reference)
	Kind  string `json:"kind"`             // follow | lag | crash | restart | statesync
	At    string `json:"at,omitempty"`     // crash point: begin | deliver | end | commit | commit.write | commit.after_meta | disk.error
	K     int    `json:"k,omitempty"`      // deliver index or number of batch writes that survive
	SkewS int64  `json:"skew_s,omitempty"` // wall-clock skew applied before this node executes (seconds)
	JumpS int64  `json:"jump_s,omitempty"` // wall-clock jump in the middle of the block (seconds)
	// Proposal: what a validator does before executing a block: "" nothing (a non-validating full
	// node), "process" ProcessProposal (every validator), "prepare" PrepareProposal+ProcessProposal
	// (the proposer). The responses are not judged; the calls must not influence execution.
	Proposal string `json:"proposal,omitempty"`
	// SlowMs: this node's disk is slow while it executes this block: every database read takes that
	// many milliseconds of the node's wall clock, so time passes inside the ABCI calls
	SlowMs int64 `json:"slow_ms,omitempty"`
}

// QuerySpec is one piece of query noise / list query exercised at a block boundary or mid-block.
type QuerySpec struct {
	Kind   string `json:"kind"`
	A      int    `json:"a,omitempty"`
	Limit  uint64 `json:"limit,omitempty"`
	Offset bool   `json:"offset,omitempty"`
	Count  bool   `json:"count,omitempty"`
	Rev    bool   `json:"rev,omitempty"`
	Filter string `json:"filter,omitempty"`
	Up     bool   `json:"up,omitempty"`     // filter addresses in the upper-case bech32 spelling
	MidTx  int    `json:"mid_tx,omitempty"` // issue before the k-th tx (0 = at block start after BeginBlock)
	// Rest: page limit of every page after the first ("the first few, then all the rest"); 0 = Limit
	Rest uint64 `json:"rest,omitempty"`
	// overflowed (set while paging): some request had offset+limit beyond 2^64-1
	overflowed bool
}

// NoiseSpec is one call on a non-consensus ABCI surface of the *reference* node that the replicas
// do not receive: CometBFT runs the mempool, query and proposal connections next to consensus, and
// none of them may influence what the chain computes.
//
//	simulate    gas simulation (/app/simulate) of the Tx-th transaction of the block
//	recheck     CheckTx (type Recheck) of the Tx-th transaction
//	prepare     PrepareProposal for the block's transactions (app-side mempool selection + ante)
//	process     ProcessProposal for the block's transactions (ante of every tx on a throw-away state)
//	info        Info
//	store       raw store query with proof (/store/<module>/key)
//	hist        gRPC query against an earlier height
//
// Pos: -2 before BeginBlock, k>=0 before the k-th DeliverTx (k = number of txs: after the last),
// -1 after EndBlock (before Commit). Commit itself is never interleaved (CometBFT locks it).
type NoiseSpec struct {
	Kind string `json:"kind"`
	Pos  int    `json:"pos"`
	Tx   int    `json:"tx,omitempty"`
	N    uint64 `json:"n,omitempty"`
}

// BlockSpec is one block of the history.
type BlockSpec struct {
	DtMs    int64       `json:"dt_ms"`
	Txs     []TxSpec    `json:"txs,omitempty"`
	Nodes   []NodeEvent `json:"nodes,omitempty"`
	Queries []QuerySpec `json:"queries,omitempty"`
	Noise   []NoiseSpec `json:"noise,omitempty"`
	Export  bool        `json:"export,omitempty"` // export/import fork taken after this block
}

// Trace is a whole run.
type Trace struct {
	Version  int         `json:"version"`
	Property string      `json:"property"`
	Class    string      `json:"violation_class,omitempty"`
	Seed     int64       `json:"seed"`
	Profile  string      `json:"profile"`
	Flags    []string    `json:"flags,omitempty"`
	Knobs    Knobs       `json:"knobs"`
	Blocks   []BlockSpec `json:"blocks"`
}

func (t *Trace) HasFlag(f string) bool {
	for _, x := range t.Flags {
		if x == f {
			return true
		}
	}
	return false
}

func (t *Trace) Clone() *Trace {
	bz, _ := json.Marshal(t)
	var c Trace
	_ = json.Unmarshal(bz, &c)
	return &c
}

func (t *Trace) Save(path string) error {
	bz, err := json.MarshalIndent(t, "", " ")
	if err != nil {
		return err
	}
	return os.WriteFile(path, bz, 0o644)
}

func LoadTrace(path string) (*Trace, error) {
	bz, err := os.ReadFile(path)
	if err != nil {
		return nil, err
	}
	var t Trace
	if err := json.Unmarshal(bz, &t); err != nil {
		return nil, err
	}
	return &t, nil
}

func (t *Trace) NumTxs() int {
	n := 0
	for _, b := range t.Blocks {
		n += len(b.Txs)
	}
	return n
}
