package simnet

// twin.go — the out-of-process twin of C01: the block log of a finished run is re-executed in a
// child process (another address space and map seed, GOMAXPROCS=1, the real wall clock instead of
// the bubble clock, goleveldb on a scratch directory instead of MemDB) and every app hash and
// per-transaction result tuple is compared with what the reference node produced.

import (
	"bytes"
	"encoding/json"
	"fmt"
	"os"
	"os/exec"
	"strings"
	"time"

	dbm "github.com/cometbft/cometbft-db"
	abci "github.com/cometbft/cometbft/abci/types"
)

type twinBlock struct {
	Height  int64      `json:"height"`
	TimeNs  int64      `json:"time_ns"`
	TimeS   int64      `json:"time_s"`
	Txs     [][]byte   `json:"txs"`
	Res     []TxDigest `json:"res"`
	AppHash []byte     `json:"app_hash"`
}

type twinFile struct {
	AppState []byte                 `json:"app_state"`
	AppOpts  map[string]interface{} `json:"app_opts,omitempty"`
	Blocks   []twinBlock            `json:"blocks"`
}

// RunTwin re-executes the run's block log in a child process. It returns a violation text ("" if
// the twin agrees) and whether the twin could be run at all.
func RunTwin(res *RunResult) (string, bool) {
	if len(res.BlockLog) == 0 || res.Halted != "" {
		return "", false
	}
	tf := twinFile{AppState: res.AppState, AppOpts: appOptsOf(&res.Trace.Knobs)}
	for _, b := range res.BlockLog {
		tf.Blocks = append(tf.Blocks, twinBlock{Height: b.Height, TimeS: b.Time.Unix(), TimeNs: int64(b.Time.Nanosecond()), Txs: b.Txs, Res: b.Res, AppHash: b.AppHash})
	}
	dir, err := os.MkdirTemp("", "simnet-twin-")
	if err != nil {
		return "", false
	}
	defer os.RemoveAll(dir)
	bz, _ := json.Marshal(tf)
	path := dir + "/log.json"
	if err := os.WriteFile(path, bz, 0o600); err != nil {
		return "", false
	}
	cmd := exec.Command(os.Args[0], "-test.run", "^TestTwin$", "-test.timeout", "10m")
	// another address space, one CPU, the real wall clock, and a different local time zone and
	// locale than the parent (anything that formats or truncates times in local time would show)
	cmd.Env = append(os.Environ(), "SIM_TWIN="+path, "SIM_TWIN_DIR="+dir, "GOMAXPROCS=1", "TZ=Pacific/Kiritimati", "LANG=tr_TR.UTF-8", "LC_ALL=tr_TR.UTF-8")
	var out bytes.Buffer
	cmd.Stdout, cmd.Stderr = &out, &out
	if err := cmd.Run(); err != nil && !strings.Contains(out.String(), "TWIN-") {
		return "twin process failed: " + trunc(out.String(), 300), false
	}
	for _, line := range strings.Split(out.String(), "\n") {
		if strings.HasPrefix(line, "TWIN-MISMATCH") {
			return line, true
		}
	}
	if strings.Contains(out.String(), "TWIN-OK") {
		return "", true
	}
	return "twin gave no verdict: " + trunc(out.String(), 300), false
}

// twinMain is the child side.
func twinMain(path, dir string) {
	bz, err := os.ReadFile(path)
	if err != nil {
		fmt.Println("TWIN-ERROR", err)
		return
	}
	var tf twinFile
	if err := json.Unmarshal(bz, &tf); err != nil {
		fmt.Println("TWIN-ERROR", err)
		return
	}
	db, err := dbm.NewGoLevelDB("application", dir+"/db")
	if err != nil {
		fmt.Println("TWIN-ERROR", err)
		return
	}
	defer db.Close()
	n := &Node{Idx: 99, Cfg: NodeCfg{Pruning: "everything", IAVLCache: 16, NoFastNode: true}, DB: db, AppOpts: tf.AppOpts}
	n.Open()
	n.App.InitChain(InitChainReq(tf.AppState))
	var prev []byte
	for _, b := range tf.Blocks {
		t := time.Unix(b.TimeS, b.TimeNs).UTC()
		hdr := MakeHeader(b.Height, t, prev)
		n.App.BeginBlock(abci.RequestBeginBlock{Header: hdr, LastCommitInfo: LastCommit()})
		for i, tx := range b.Txs {
			r := n.App.DeliverTx(abci.RequestDeliverTx{Tx: tx})
			if d := digestOf(r); d != b.Res[i] {
				fmt.Printf("TWIN-MISMATCH kind=tx height=%d tx=%d twin=%+v reference=%+v\n", b.Height, i, d, b.Res[i])
				return
			}
		}
		n.App.EndBlock(abci.RequestEndBlock{Height: b.Height})
		c := n.App.Commit()
		if !bytes.Equal(c.Data, b.AppHash) {
			fmt.Printf("TWIN-MISMATCH kind=apphash height=%d twin=%X reference=%X\n", b.Height, c.Data, b.AppHash)
			return
		}
		prev = b.AppHash
	}
	fmt.Printf("TWIN-OK blocks=%d\n", len(tf.Blocks))
}
