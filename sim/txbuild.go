package simnet

// txbuild.go — turns MsgSpec/TxSpec into real sdk.Msg values and real signed transaction bytes.

import (
	"encoding/binary"
	"encoding/hex"
	"fmt"
	clienttypes "github.com/cosmos/ibc-go/v7/modules/core/02-client/types"
	connectiontypes "github.com/cosmos/ibc-go/v7/modules/core/03-connection/types"
	channeltypes "github.com/cosmos/ibc-go/v7/modules/core/04-channel/types"
	commitmenttypes "github.com/cosmos/ibc-go/v7/modules/core/23-commitment/types"
	ibctm "github.com/cosmos/ibc-go/v7/modules/light-clients/07-tendermint"
	"strconv"
	"strings"
	"time"

	"cosmossdk.io/math"
	"github.com/cosmos/cosmos-sdk/client"
	clienttx "github.com/cosmos/cosmos-sdk/client/tx"
	"github.com/cosmos/cosmos-sdk/crypto/keys/secp256k1"
	sdk "github.com/cosmos/cosmos-sdk/types"
	"github.com/cosmos/cosmos-sdk/types/tx/signing"
	authsigning "github.com/cosmos/cosmos-sdk/x/auth/signing"
	"github.com/cosmos/cosmos-sdk/x/authz"
	banktypes "github.com/cosmos/cosmos-sdk/x/bank/types"
	distrtypes "github.com/cosmos/cosmos-sdk/x/distribution/types"
	"github.com/cosmos/cosmos-sdk/x/feegrant"
	govtypes "github.com/cosmos/cosmos-sdk/x/gov/types"
	govv1 "github.com/cosmos/cosmos-sdk/x/gov/types/v1"
	"github.com/cosmos/cosmos-sdk/x/group"
	groupkeeper "github.com/cosmos/cosmos-sdk/x/group/keeper"
	stakingtypes "github.com/cosmos/cosmos-sdk/x/staking/types"

	authtypes "github.com/cosmos/cosmos-sdk/x/auth/types"

	beacontypes "github.com/unification-com/mainchain/x/beacon/types"
	enttypes "github.com/unification-com/mainchain/x/enterprise/types"
	streamtypes "github.com/unification-com/mainchain/x/stream/types"
	wrkchaintypes "github.com/unification-com/mainchain/x/wrkchain/types"
)

// Address codes below zero name non-actor addresses.
const (
	AddrGov          = -1
	AddrEnterprise   = -2
	AddrStream       = -3
	AddrFeeCollector = -4
	AddrBonded       = -5
	AddrDistr        = -6
	// -(100+n): a named-only address of n bytes (1..255)
	// -(2000+k): the account of the k-th x/group policy created on this chain (k = 1, 2, ...); a
	// 32-byte address derived from the policy sequence, which "signs" through group proposals
)

// PolicyAddr is the account address x/group gives the k-th group policy.
func PolicyAddr(k uint64) sdk.AccAddress {
	dk := make([]byte, 8)
	binary.BigEndian.PutUint64(dk, k)
	ac, err := authtypes.NewModuleCredential(group.ModuleName, []byte{groupkeeper.GroupPolicyTablePrefix}, dk)
	if err != nil {
		panic(err)
	}
	return sdk.AccAddress(ac.Address())
}

func AddrOf(actors []*Actor, i int) sdk.AccAddress {
	switch {
	case i >= 0:
		return actors[actorIdx(i, len(actors))].Addr
	case i == AddrGov:
		return ModuleAddr(govtypes.ModuleName)
	case i == AddrEnterprise:
		return ModuleAddr(enttypes.ModuleName)
	case i == AddrStream:
		return ModuleAddr(streamtypes.ModuleName)
	case i == AddrFeeCollector:
		return ModuleAddr(authtypes.FeeCollectorName)
	case i == AddrBonded:
		return ModuleAddr(stakingtypes.BondedPoolName)
	case i == AddrDistr:
		return ModuleAddr(distrtypes.ModuleName)
	case i <= -2001 && i >= -2999:
		return PolicyAddr(uint64(-i - 2000))
	case i <= -101 && i >= -355:
		n := -i - 100
		b := make([]byte, n)
		for j := range b {
			b[j] = byte(0xA0 + (j*7+n)%0x5F)
		}
		return sdk.AccAddress(b)
	}
	return actors[0].Addr
}

// str returns the i-th free-text field of a message spec. "hex:<digits>" stands for those raw bytes
// (a protobuf string field carries whatever bytes the client puts on the wire; the replay file,
// being JSON, can only hold them escaped).
func str(s []string, i int) string {
	if i < len(s) {
		if h, ok := strings.CutPrefix(s[i], "hex:"); ok {
			if b, err := hex.DecodeString(h); err == nil {
				return string(b)
			}
		}
		return s[i]
	}
	return ""
}

func coinOf(amt, denom string) sdk.Coin {
	a, ok := math.NewIntFromString(amt)
	if !ok {
		a = math.ZeroInt()
	}
	return sdk.Coin{Denom: denom, Amount: a}
}

func (p *ParamSpec) signers(actors []*Actor) string {
	if strings.HasPrefix(p.EntSigners, "@") {
		parts := strings.Split(p.EntSigners[1:], ",")
		out := make([]string, 0, len(parts))
		for _, x := range parts {
			i, err := strconv.Atoi(x)
			if err != nil {
				continue
			}
			out = append(out, AddrOf(actors, i).String())
		}
		return strings.Join(out, ",")
	}
	return p.EntSigners
}

func decOf(s string) math.LegacyDec {
	if s == "nil" || s == "" {
		return math.LegacyDec{}
	}
	d, err := math.LegacyNewDecFromStr(s)
	if err != nil {
		return math.LegacyDec{}
	}
	return d
}

// BuildMsg converts one MsgSpec. It never validates: invalid messages are part of the workload.
func BuildMsg(actors []*Actor, m *MsgSpec) (sdk.Msg, error) {
	A := AddrOf(actors, m.A).String()
	B := AddrOf(actors, m.B).String()
	if m.Up {
		A = strings.ToUpper(A)
	}
	if m.UpB {
		B = strings.ToUpper(B)
	}
	switch m.T {
	case "ent.raise":
		return &enttypes.MsgUndPurchaseOrder{Purchaser: A, Amount: coinOf(m.Amt, m.Denom)}, nil
	case "ent.decide":
		return &enttypes.MsgProcessUndPurchaseOrder{PurchaseOrderId: m.Id, Decision: enttypes.PurchaseOrderStatus(m.N), Signer: A}, nil
	case "ent.whitelist":
		return &enttypes.MsgWhitelistAddress{Address: B, Signer: A, Action: enttypes.WhitelistAction(m.N)}, nil
	case "ent.params":
		return &enttypes.MsgUpdateParams{Authority: A, Params: enttypes.Params{EntSigners: m.P.signers(actors), Denom: m.P.Denom, MinAccepts: m.P.MinAccepts, DecisionTimeLimit: m.P.Limit}}, nil
	case "wrk.register":
		return &wrkchaintypes.MsgRegisterWrkChain{Moniker: str(m.S, 0), Name: str(m.S, 1), GenesisHash: str(m.S, 2), BaseType: str(m.S, 3), Owner: A}, nil
	case "wrk.record":
		return &wrkchaintypes.MsgRecordWrkChainBlock{WrkchainId: m.Id, Height: m.N, BlockHash: str(m.S, 0), ParentHash: str(m.S, 1), Hash1: str(m.S, 2), Hash2: str(m.S, 3), Hash3: str(m.S, 4), Owner: A}, nil
	case "wrk.purchase":
		return &wrkchaintypes.MsgPurchaseWrkChainStateStorage{WrkchainId: m.Id, Number: m.N, Owner: A}, nil
	case "wrk.params":
		return &wrkchaintypes.MsgUpdateParams{Authority: A, Params: wrkchaintypes.Params{FeeRegister: m.P.FeeReg, FeeRecord: m.P.FeeRec, FeePurchaseStorage: m.P.FeePur, Denom: m.P.Denom, DefaultStorageLimit: m.P.DefLimit, MaxStorageLimit: m.P.MaxLimit}}, nil
	case "bcn.register":
		return &beacontypes.MsgRegisterBeacon{Moniker: str(m.S, 0), Name: str(m.S, 1), Owner: A}, nil
	case "bcn.record":
		return &beacontypes.MsgRecordBeaconTimestamp{BeaconId: m.Id, Hash: str(m.S, 0), SubmitTime: m.N, Owner: A}, nil
	case "bcn.purchase":
		return &beacontypes.MsgPurchaseBeaconStateStorage{BeaconId: m.Id, Number: m.N, Owner: A}, nil
	case "bcn.params":
		return &beacontypes.MsgUpdateParams{Authority: A, Params: beacontypes.Params{FeeRegister: m.P.FeeReg, FeeRecord: m.P.FeeRec, FeePurchaseStorage: m.P.FeePur, Denom: m.P.Denom, DefaultStorageLimit: m.P.DefLimit, MaxStorageLimit: m.P.MaxLimit}}, nil
	case "str.create":
		return &streamtypes.MsgCreateStream{Receiver: B, Sender: A, Deposit: coinOf(m.Amt, m.Denom), FlowRate: int64(m.N)}, nil
	case "str.claim":
		return &streamtypes.MsgClaimStream{Receiver: A, Sender: B}, nil
	case "str.topup":
		return &streamtypes.MsgTopUpDeposit{Receiver: B, Sender: A, Deposit: coinOf(m.Amt, m.Denom)}, nil
	case "str.update":
		return &streamtypes.MsgUpdateFlowRate{Receiver: B, Sender: A, FlowRate: int64(m.N)}, nil
	case "str.cancel":
		return &streamtypes.MsgCancelStream{Receiver: B, Sender: A}, nil
	case "str.params":
		return &streamtypes.MsgUpdateParams{Authority: A, Params: streamtypes.Params{ValidatorFee: decOf(m.P.ValFee)}}, nil
	case "ibc.client":
		// a light client of some counterparty chain (anybody may create one)
		cs := ibctm.NewClientState("counterparty-1", ibctm.DefaultTrustLevel, 14*24*time.Hour, 21*24*time.Hour, 10*time.Second, clienttypes.NewHeight(1, 5), commitmenttypes.GetSDKSpecs(), []string{"upgrade", "upgradedIBCState"})
		cons := ibctm.NewConsensusState(time.Unix(GenesisTS, 0).UTC(), commitmenttypes.NewMerkleRoot([]byte("apphash-of-the-counterparty")), make([]byte, 32))
		return clienttypes.NewMsgCreateClient(cs, cons, A)
	case "ibc.conninit":
		return connectiontypes.NewMsgConnectionOpenInit(fmt.Sprintf("07-tendermint-%d", m.Id), "07-tendermint-0", commitmenttypes.NewMerklePrefix([]byte("ibc")), nil, 0, A), nil
	case "ibc.chaninit":
		return channeltypes.NewMsgChannelOpenInit("transfer", "ics20-1", channeltypes.UNORDERED, []string{fmt.Sprintf("connection-%d", m.Id)}, "transfer", A), nil
	case "ibc.chanack":
		return channeltypes.NewMsgChannelOpenAck("transfer", fmt.Sprintf("channel-%d", m.Id), "channel-0", "ics20-1", []byte("proof"), clienttypes.NewHeight(1, 10), A), nil
	case "bank.send":
		return &banktypes.MsgSend{FromAddress: A, ToAddress: B, Amount: sdk.Coins{coinOf(m.Amt, m.Denom)}}, nil
	case "bank.multisend":
		c := sdk.Coins{coinOf(m.Amt, m.Denom)}
		return &banktypes.MsgMultiSend{Inputs: []banktypes.Input{{Address: A, Coins: c}}, Outputs: []banktypes.Output{{Address: B, Coins: c}}}, nil
	case "authz.grant":
		return authz.NewMsgGrant(AddrOf(actors, m.A), AddrOf(actors, m.B), authz.NewGenericAuthorization(str(m.S, 0)), nil)
	case "authz.exec":
		inner := make([]sdk.Msg, 0, len(m.Inner))
		for i := range m.Inner {
			x, err := BuildMsg(actors, &m.Inner[i])
			if err != nil {
				return nil, err
			}
			inner = append(inner, x)
		}
		e := authz.NewMsgExec(AddrOf(actors, m.A), inner)
		return &e, nil
	case "grp.create":
		// a one-member group whose policy passes with that member's vote
		msg := &group.MsgCreateGroupWithPolicy{Admin: A, Members: []group.MemberRequest{{Address: A, Weight: "1"}}}
		var pol group.DecisionPolicy = group.NewThresholdDecisionPolicy("1", time.Hour, 0)
		if m.N == 3 {
			// two members whose weights are legal decimals very far apart
			msg.Members = []group.MemberRequest{{Address: A, Weight: "1e-50000"}, {Address: B, Weight: "6e50000"}}
		}
		if m.N == 2 || m.N == 3 {
			// a share of the group's total weight instead of an absolute number; short voting period
			pol = group.NewPercentageDecisionPolicy("0.5", 10*time.Second, 0)
		}
		if err := msg.SetDecisionPolicy(pol); err != nil {
			return nil, err
		}
		return msg, nil
	case "grp.vote":
		return &group.MsgVote{ProposalId: m.Id, Voter: A, Option: group.VOTE_OPTION_YES}, nil
	case "grp.leave":
		return &group.MsgLeaveGroup{Address: A, GroupId: m.Id}, nil
	case "grp.submit":
		// A proposes to policy Id the messages Inner (which name the policy account); N=1: try to execute at once
		inner := make([]sdk.Msg, 0, len(m.Inner))
		for i := range m.Inner {
			x, err := BuildMsg(actors, &m.Inner[i])
			if err != nil {
				return nil, err
			}
			inner = append(inner, x)
		}
		exec := group.Exec_EXEC_UNSPECIFIED
		if m.N == 1 {
			exec = group.Exec_EXEC_TRY
		}
		return group.NewMsgSubmitProposal(PolicyAddr(m.Id).String(), []string{A}, inner, "", exec, "p", "p")
	case "feegrant.grant":
		al := &feegrant.BasicAllowance{}
		if m.N > 0 {
			// N: unix time at which the allowance expires
			t := time.Unix(int64(m.N), 0).UTC()
			al.Expiration = &t
		}
		return feegrant.NewMsgGrantAllowance(al, AddrOf(actors, m.A), AddrOf(actors, m.B))
	case "gov.submit":
		inner := make([]sdk.Msg, 0, len(m.Inner))
		for i := range m.Inner {
			x, err := BuildMsg(actors, &m.Inner[i])
			if err != nil {
				return nil, err
			}
			inner = append(inner, x)
		}
		return govv1.NewMsgSubmitProposal(inner, sdk.Coins{coinOf(m.Amt, m.Denom)}, A, "", "p", "p")
	case "gov.vote":
		return govv1.NewMsgVote(AddrOf(actors, m.A), m.Id, govv1.VoteOption(m.N), ""), nil
	case "stake.delegate":
		return stakingtypes.NewMsgDelegate(AddrOf(actors, m.A), sdk.ValAddress(ValidatorKey().PubKey().Address()), coinOf(m.Amt, m.Denom)), nil
	case "stake.undelegate":
		return stakingtypes.NewMsgUndelegate(AddrOf(actors, m.A), sdk.ValAddress(ValidatorKey().PubKey().Address()), coinOf(m.Amt, m.Denom)), nil
	case "dist.fundpool":
		return distrtypes.NewMsgFundCommunityPool(sdk.Coins{coinOf(m.Amt, m.Denom)}, AddrOf(actors, m.A)), nil
	}
	return nil, fmt.Errorf("unknown msg type %q", m.T)
}

func parseFee(s string) sdk.Coins {
	if s == "" {
		return nil
	}
	// literal, unsorted/duplicated sets are allowed to reach the chain: build by hand
	var out sdk.Coins
	for _, part := range strings.Split(s, ",") {
		c, err := sdk.ParseCoinNormalized(strings.TrimSpace(part))
		if err != nil {
			continue
		}
		out = append(out, c)
	}
	return out
}

// SignTx builds and signs the transaction. accNum/seq are what the client believes.
func SignTx(txCfg client.TxConfig, actors []*Actor, ts *TxSpec, accNum, seq uint64, payerAcc ...uint64) ([]byte, []sdk.Msg, error) {
	return SignTxWith(txCfg, actors, ts, accNum, seq, nil, payerAcc...)
}

// SignTxWith: resolve gives account number and sequence of the further signers of a Multi tx.
func SignTxWith(txCfg client.TxConfig, actors []*Actor, ts *TxSpec, accNum, seq uint64, resolve func(sdk.AccAddress) (uint64, uint64), payerAcc ...uint64) ([]byte, []sdk.Msg, error) {
	var payerAccNum, payerSeq uint64
	if len(payerAcc) == 2 {
		payerAccNum, payerSeq = payerAcc[0], payerAcc[1]
	}
	msgs := make([]sdk.Msg, 0, len(ts.Msgs))
	for i := range ts.Msgs {
		m, err := BuildMsg(actors, &ts.Msgs[i])
		if err != nil {
			return nil, nil, err
		}
		msgs = append(msgs, m)
	}
	txb := txCfg.NewTxBuilder()
	if err := txb.SetMsgs(msgs...); err != nil {
		return nil, nil, err
	}
	txb.SetFeeAmount(parseFee(ts.Fee))
	txb.SetGasLimit(ts.Gas)
	if ts.Granter > 0 {
		txb.SetFeeGranter(AddrOf(actors, ts.Granter-1))
	}
	signer := actors[actorIdx(ts.Signer, len(actors))]
	priv := signer.Priv
	chain := ChainID
	switch ts.SigFault {
	case "wrong_key":
		priv = secp256k1.GenPrivKeyFromSecret([]byte("simnet-wrong-key"))
	case "wrong_chain":
		chain = "other-chain"
	case "wrong_accnum":
		accNum += 7
	}
	seq = uint64(int64(seq) + int64(ts.SeqDelta))
	if ts.SigFault == "missing" {
		bz, err := txCfg.TxEncoder()(txb.GetTx())
		return bz, msgs, err
	}
	type sg struct {
		priv   *secp256k1.PrivKey
		accNum uint64
		seq    uint64
	}
	signers := []sg{{priv, accNum, seq}}
	if ts.Multi && resolve != nil {
		// every account the messages name signs, in the order the chain derives from the messages
		first := true
		for _, addr := range txb.GetTx().GetSigners() {
			if first {
				first = false
				if addr.Equals(signer.Addr) {
					continue
				}
				// the first required signer is not the actor chosen to sign: keep the legacy shape
				break
			}
			var who *Actor
			for _, a := range actors {
				if a.Addr.Equals(addr) {
					who = a
				}
			}
			if who == nil {
				// a named account nobody holds the key of (module account ...): cannot be signed for
				who = &Actor{Priv: secp256k1.GenPrivKeyFromSecret([]byte("simnet-nobody")), Addr: addr}
			}
			an, sq := resolve(addr)
			signers = append(signers, sg{who.Priv, an, sq})
		}
	}
	if ts.Payer > 0 && actorIdx(ts.Payer-1, len(actors)) != signer.Idx {
		// an explicit fee payer that is not the message signer: it must co-sign
		pa := actors[actorIdx(ts.Payer-1, len(actors))]
		txb.SetFeePayer(pa.Addr)
		signers = append(signers, sg{pa.Priv, payerAccNum, payerSeq})
	}
	var sigs []signing.SignatureV2
	for _, x := range signers {
		sigs = append(sigs, signing.SignatureV2{PubKey: x.priv.PubKey(), Data: &signing.SingleSignatureData{SignMode: signing.SignMode_SIGN_MODE_DIRECT}, Sequence: x.seq})
	}
	if err := txb.SetSignatures(sigs...); err != nil {
		return nil, nil, err
	}
	for i, x := range signers {
		sd := authsigning.SignerData{ChainID: chain, AccountNumber: x.accNum, Sequence: x.seq, PubKey: x.priv.PubKey(), Address: sdk.AccAddress(x.priv.PubKey().Address()).String()}
		sig2, err := clienttx.SignWithPrivKey(signing.SignMode_SIGN_MODE_DIRECT, sd, txb, x.priv, txCfg, x.seq)
		if err != nil {
			return nil, nil, err
		}
		sigs[i] = sig2
	}
	if err := txb.SetSignatures(sigs...); err != nil {
		return nil, nil, err
	}
	bz, err := txCfg.TxEncoder()(txb.GetTx())
	return bz, msgs, err
}

// actorIdx folds any integer into a valid actor index (negative signer codes sign as some actor:
// a module account can never sign, so such a transaction dies in signature verification).
func actorIdx(i, n int) int { return ((i % n) + n) % n }
