package simnet

// world.go — genesis, actors and nodes of one simulated world.
//
// Everything here is deterministic: keys come from fixed secrets, the genesis document is a pure
// function of Knobs, and nodes are plain in-process instances of the real application on a
// database the simulator owns.

import (
	"encoding/json"
	"fmt"
	"sort"
	"strings"
	"time"

	"cosmossdk.io/math"
	dbm "github.com/cometbft/cometbft-db"
	abci "github.com/cometbft/cometbft/abci/types"
	tmed "github.com/cometbft/cometbft/crypto/ed25519"
	"github.com/cometbft/cometbft/libs/log"
	tmproto "github.com/cometbft/cometbft/proto/tendermint/types"
	tmtypes "github.com/cometbft/cometbft/types"
	"github.com/cosmos/cosmos-sdk/baseapp"
	"github.com/cosmos/cosmos-sdk/client/flags"
	codectypes "github.com/cosmos/cosmos-sdk/codec/types"
	cryptocodec "github.com/cosmos/cosmos-sdk/crypto/codec"
	"github.com/cosmos/cosmos-sdk/crypto/keys/secp256k1"
	"github.com/cosmos/cosmos-sdk/server"
	"github.com/cosmos/cosmos-sdk/store"
	pruningtypes "github.com/cosmos/cosmos-sdk/store/pruning/types"
	simtestutil "github.com/cosmos/cosmos-sdk/testutil/sims"
	sdk "github.com/cosmos/cosmos-sdk/types"
	"github.com/cosmos/cosmos-sdk/types/mempool"
	authtypes "github.com/cosmos/cosmos-sdk/x/auth/types"
	vestingtypes "github.com/cosmos/cosmos-sdk/x/auth/vesting/types"
	banktypes "github.com/cosmos/cosmos-sdk/x/bank/types"
	"github.com/cosmos/cosmos-sdk/x/crisis"
	crisistypes "github.com/cosmos/cosmos-sdk/x/crisis/types"
	govtypes "github.com/cosmos/cosmos-sdk/x/gov/types"
	govv1 "github.com/cosmos/cosmos-sdk/x/gov/types/v1"
	slashingtypes "github.com/cosmos/cosmos-sdk/x/slashing/types"
	stakingtypes "github.com/cosmos/cosmos-sdk/x/staking/types"

	"github.com/unification-com/mainchain/app"
	beacontypes "github.com/unification-com/mainchain/x/beacon/types"
	enttypes "github.com/unification-com/mainchain/x/enterprise/types"
	streamtypes "github.com/unification-com/mainchain/x/stream/types"
	wrkchaintypes "github.com/unification-com/mainchain/x/wrkchain/types"
)

const (
	ChainID   = "simnet-1"
	Native    = "nund"
	Denom2    = "stake"
	Denom3    = "ibc/C4CFF46FD6DE35CA4CF4CE031E643C8FDC9BA4B9" // upper-case characters, like an IBC voucher
	GenesisTS = int64(1700000000)                              // 2023-11-14, block clock origin
)

// Account kinds of genesis accounts.
const (
	KindBase = iota
	KindContinuousVesting
	KindDelayedVesting
	KindPeriodicVesting
)

// RegParams are the parameters of one registry module (wrkchain or beacon).
type RegParams struct {
	FeeReg   uint64 `json:"fee_reg"`
	FeeRec   uint64 `json:"fee_rec"`
	FeePur   uint64 `json:"fee_pur"`
	Denom    string `json:"denom"`
	DefLimit uint64 `json:"def_limit"`
	MaxLimit uint64 `json:"max_limit"`
}

// EntParams mirror enterprise params with signers as actor indexes.
type EntParams struct {
	Signers    []int  `json:"signers"`
	Denom      string `json:"denom"`
	MinAccepts uint64 `json:"min_accepts"`
	Limit      uint64 `json:"limit"`
}

// NodeCfg is the configuration of one replica.
type NodeCfg struct {
	Pruning      string `json:"pruning"` // nothing | everything | custom
	IAVLCache    int    `json:"iavl_cache"`
	NoFastNode   bool   `json:"no_fast_node"`
	InterBlock   bool   `json:"inter_block_cache"`
	MinGasPrices string `json:"min_gas_prices"`
	Backend      string `json:"backend"` // memdb | goleveldb
	// Mempool: the app-side SenderNonceMempool that cmd/und configures through
	// server.DefaultBaseappOptions (CheckTx inserts, DeliverTx removes, PrepareProposal selects)
	Mempool bool `json:"mempool,omitempty"`
}

// Knobs fully determine the genesis document and node set of a world.
type Knobs struct {
	NActors     int       `json:"n_actors"`
	Kinds       []int     `json:"kinds"`
	BondDenom   string    `json:"bond_denom"`
	Ent         EntParams `json:"ent"`
	Whitelist   []int     `json:"whitelist"`
	Wrk         RegParams `json:"wrk"`
	Beacon      RegParams `json:"beacon"`
	ValFee      string    `json:"val_fee"`
	StartPO     uint64    `json:"start_po"`
	StartWrk    uint64    `json:"start_wrk"`
	StartBeacon uint64    `json:"start_beacon"`
	GovSecs     int64     `json:"gov_secs"`
	Balance     string    `json:"balance"`               // per denom per actor
	Nodes       []NodeCfg `json:"nodes"`                 // replicas (node 0, the reference, is implicit)
	RefMempool  bool      `json:"ref_mempool,omitempty"` // reference node runs the app-side mempool too
	// BigReg: a registration that already holds more records than a genesis export carries
	// (the newest 20,000), injected through genesis with identifier Start-1 and an owner that never signs
	BigReg *BigReg `json:"big_reg,omitempty"`
	// UnbackedLocked: the enterprise section of the genesis document claims this much locked eFUND
	// (for actor 3) although the bank section holds nothing for the escrow account - a document a
	// node must refuse (or at least import without creating coins)
	UnbackedLocked string `json:"unbacked_locked,omitempty"`
	// GenesisOrder: a purchase order already in the genesis document (identifier StartPO; the chain
	// then starts counting at StartPO+1), e.g. one caught in accepted status by an export, possibly
	// for a purchaser no transaction could have named
	GenesisOrder *GenOrder `json:"genesis_order,omitempty"`
	// WhitelistGov: the governance account is whitelisted as a purchaser from genesis (it can raise
	// orders through proposals)
	WhitelistGov bool `json:"whitelist_gov,omitempty"`
	// node start options that are part of the scenario
	InvCheckPeriod        uint `json:"inv_check_period,omitempty"`        // --inv-check-period
	SkipGenesisInvariants bool `json:"skip_genesis_invariants,omitempty"` // --x-crisis-skip-assert-invariants
	// ManyDenoms: that many extra denominations (sorting before the native one) in the bank supply
	ManyDenoms int `json:"many_denoms,omitempty"`
	// DenomsAfterNative: a few more denominations that sort after the native one
	DenomsAfterNative bool `json:"denoms_after_native,omitempty"`
	// ManyRegs: that many WRKChains and BEACONs (ids 1..n, no records, an owner nobody holds the key
	// of) already in the genesis document
	ManyRegs int `json:"many_regs,omitempty"`
	// GenesisRegUpper: registration 1 of each kind is owned by actor 3, whose address the document
	// writes in the upper-case bech32 spelling (the models follow these two registrations)
	GenesisRegUpper bool `json:"genesis_reg_upper,omitempty"`
	// BadGenesisParams: "<module>:<rule>" - the genesis document carries parameters of that module
	// which break that validity rule (every node must refuse to start from it)
	BadGenesisParams string `json:"bad_genesis_params,omitempty"`
	// RefMinGas: minimum-gas-prices of the reference node (the one whose CheckTx is judged)
	RefMinGas string `json:"ref_min_gas,omitempty"`
}

type GenOrder struct {
	Purchaser int    `json:"purchaser"` // address code (actor index or negative module code)
	Amount    string `json:"amount"`
	Status    int    `json:"status"` // 1 raised, 2 accepted
	// NoRaiseTime: the order carries raise_time 0
	NoRaiseTime bool `json:"no_raise_time,omitempty"`
}

type BigReg struct {
	Kind string `json:"kind"` // wrk | bcn
	N    uint64 `json:"n"`    // records in state
}

// BigRegOwner owns the genesis-injected registration; nobody holds its key.
func BigRegOwner() sdk.AccAddress {
	b := make([]byte, 20)
	for i := range b {
		b[i] = 0xB1
	}
	return sdk.AccAddress(b)
}

// Actor is one simulated client with a deterministic key.
type Actor struct {
	Idx  int
	Priv *secp256k1.PrivKey
	Addr sdk.AccAddress
	Kind int
}

func (a *Actor) Bech() string { return a.Addr.String() }

var configSealed bool

func sealConfig() {
	if !configSealed {
		app.SetConfig()
		configSealed = true
	}
}

func MakeActors(n int, kinds []int) []*Actor {
	sealConfig()
	out := make([]*Actor, n)
	for i := 0; i < n; i++ {
		priv := secp256k1.GenPrivKeyFromSecret([]byte(fmt.Sprintf("simnet-actor-%d", i)))
		k := KindBase
		if i < len(kinds) {
			k = kinds[i]
		}
		out[i] = &Actor{Idx: i, Priv: priv, Addr: sdk.AccAddress(priv.PubKey().Address()), Kind: k}
	}
	return out
}

func ValidatorKey() tmed.PrivKey { return tmed.GenPrivKeyFromSecret([]byte("simnet-validator")) }

func ModuleAddr(name string) sdk.AccAddress { return authtypes.NewModuleAddress(name) }

func (k *Knobs) signersString(actors []*Actor) string {
	s := ""
	for i, idx := range k.Ent.Signers {
		if i > 0 {
			s += ","
		}
		s += actors[idx].Bech()
	}
	return s
}

func mustInt(s string) math.Int {
	i, ok := math.NewIntFromString(s)
	if !ok {
		panic("bad int " + s)
	}
	return i
}

// BuildGenesis returns the app-state JSON for the knobs.
func BuildGenesis(k *Knobs, actors []*Actor) (json.RawMessage, []abci.ValidatorUpdate) {
	sealConfig()
	enc := app.ModuleBasics
	// a throw-away app gives the codec and default genesis
	tmp := app.NewApp(log.NewNopLogger(), dbm.NewMemDB(), nil, true, simtestutil.AppOptionsMap{flags.FlagHome: "/nonexistent"}, baseapp.SetChainID(ChainID))
	cdc := tmp.AppCodec()
	gs := enc.DefaultGenesis(cdc)

	bal := mustInt(k.Balance)
	genTime := time.Unix(GenesisTS, 0).UTC()
	var accs []authtypes.GenesisAccount
	var balances []banktypes.Balance
	supply := sdk.NewCoins()
	for _, a := range actors {
		coins := sdk.NewCoins(sdk.NewCoin(Native, bal), sdk.NewCoin(Denom2, bal), sdk.NewCoin(Denom3, bal))
		base := authtypes.NewBaseAccount(a.Addr, nil, 0, 0)
		var ga authtypes.GenesisAccount = base
		// vesting accounts: half of the native balance is under vesting
		half := sdk.NewCoins(sdk.NewCoin(Native, bal.QuoRaw(2)))
		switch a.Kind {
		case KindContinuousVesting:
			ga = vestingtypes.NewContinuousVestingAccount(base, half, genTime.Unix(), genTime.Unix()+86400*365)
		case KindDelayedVesting:
			ga = vestingtypes.NewDelayedVestingAccount(base, half, genTime.Unix()+86400*365*5)
		case KindPeriodicVesting:
			p := vestingtypes.Periods{{Length: 86400 * 30, Amount: sdk.NewCoins(sdk.NewCoin(Native, bal.QuoRaw(4)))}, {Length: 86400 * 300, Amount: sdk.NewCoins(sdk.NewCoin(Native, bal.QuoRaw(2).Sub(bal.QuoRaw(4))))}}
			ga = vestingtypes.NewPeriodicVestingAccount(base, half, genTime.Unix(), p)
		}
		if a.Idx == 0 && k.DenomsAfterNative {
			for i, d := range []string{"uatom", "uosmo", "uusdc", "zeta"} {
				coins = coins.Add(sdk.NewInt64Coin(d, int64(1000+i)))
			}
		}
		if a.Idx == 0 && k.ManyDenoms > 0 {
			for i := 0; i < k.ManyDenoms; i++ {
				coins = coins.Add(sdk.NewInt64Coin(fmt.Sprintf("ibc/%040X", 1000+i*7919), int64(1+i)))
			}
		}
		accs = append(accs, ga)
		balances = append(balances, banktypes.Balance{Address: a.Bech(), Coins: coins})
		supply = supply.Add(coins...)
	}
	authGen := authtypes.NewGenesisState(authtypes.DefaultParams(), accs)
	gs[authtypes.ModuleName] = cdc.MustMarshalJSON(authGen)

	// one validator, delegated to by actor 0
	valPriv := ValidatorKey()
	tmVal := tmtypes.NewValidator(valPriv.PubKey(), 1)
	pk, err := cryptocodec.FromTmPubKeyInterface(tmVal.PubKey)
	if err != nil {
		panic(err)
	}
	pkAny, err := codectypes.NewAnyWithValue(pk)
	if err != nil {
		panic(err)
	}
	bondAmt := sdk.DefaultPowerReduction.MulRaw(1000)
	validator := stakingtypes.Validator{
		OperatorAddress: sdk.ValAddress(tmVal.Address).String(), ConsensusPubkey: pkAny, Status: stakingtypes.Bonded,
		Tokens: bondAmt, DelegatorShares: math.LegacyNewDecFromInt(bondAmt), UnbondingTime: time.Unix(0, 0).UTC(),
		Commission:        stakingtypes.NewCommission(math.LegacyZeroDec(), math.LegacyZeroDec(), math.LegacyZeroDec()),
		MinSelfDelegation: math.ZeroInt(),
	}
	deleg := stakingtypes.NewDelegation(actors[0].Addr, tmVal.Address.Bytes(), math.LegacyNewDecFromInt(bondAmt))
	sp := stakingtypes.DefaultParams()
	sp.BondDenom = k.BondDenom
	sp.UnbondingTime = 60 * time.Second
	gs[stakingtypes.ModuleName] = cdc.MustMarshalJSON(stakingtypes.NewGenesisState(sp, []stakingtypes.Validator{validator}, []stakingtypes.Delegation{deleg}))
	consAddr := sdk.ConsAddress(tmVal.Address)
	sl := slashingtypes.DefaultGenesisState()
	sl.SigningInfos = []slashingtypes.SigningInfo{{Address: consAddr.String(), ValidatorSigningInfo: slashingtypes.NewValidatorSigningInfo(consAddr, 0, 0, time.Unix(0, 0).UTC(), false, 0)}}
	gs[slashingtypes.ModuleName] = cdc.MustMarshalJSON(sl)
	bonded := sdk.NewCoin(k.BondDenom, bondAmt)
	supply = supply.Add(bonded)
	balances = append(balances, banktypes.Balance{Address: ModuleAddr(stakingtypes.BondedPoolName).String(), Coins: sdk.NewCoins(bonded)})
	sort.Slice(balances, func(i, j int) bool { return balances[i].Address < balances[j].Address })
	gs[banktypes.ModuleName] = cdc.MustMarshalJSON(banktypes.NewGenesisState(banktypes.DefaultGenesisState().Params, balances, supply, nil, nil))

	gg := govv1.DefaultGenesisState()
	gg.Params.MinDeposit = sdk.NewCoins(sdk.NewInt64Coin(k.BondDenom, 1000))
	vp := time.Duration(k.GovSecs) * time.Second
	gg.Params.VotingPeriod = &vp
	md := 2 * vp
	gg.Params.MaxDepositPeriod = &md
	gs[govtypes.ModuleName] = cdc.MustMarshalJSON(gg)
	gs[crisistypes.ModuleName] = cdc.MustMarshalJSON(crisistypes.NewGenesisState(sdk.NewInt64Coin(k.BondDenom, 1000)))

	eg := enttypes.DefaultGenesisState()
	eg.Params = enttypes.Params{EntSigners: k.signersString(actors), Denom: k.Ent.Denom, MinAccepts: k.Ent.MinAccepts, DecisionTimeLimit: k.Ent.Limit}
	switch k.BadGenesisParams {
	case "ent:denom":
		eg.Params.Denom = ""
	case "ent:min-accepts":
		eg.Params.MinAccepts = uint64(len(k.Ent.Signers)) + 1
	case "ent:signer":
		eg.Params.EntSigners += ",und1notanaddress"
	case "ent:no-signers":
		eg.Params.EntSigners = ""
	}
	eg.StartingPurchaseOrderId = k.StartPO
	if g := k.GenesisOrder; g != nil {
		eg.StartingPurchaseOrderId = k.StartPO + 1
		po := enttypes.EnterpriseUndPurchaseOrder{Id: k.StartPO, Purchaser: AddrOf(actors, g.Purchaser).String(), Amount: sdk.NewCoin(k.Ent.Denom, mustInt(g.Amount)), Status: enttypes.PurchaseOrderStatus(g.Status), RaiseTime: uint64(GenesisTS) - 10}
		if g.NoRaiseTime {
			po.RaiseTime = 0
		}
		if g.Status == 2 {
			po.Decisions = append(po.Decisions, enttypes.PurchaseOrderDecision{Signer: actors[k.Ent.Signers[0]].Bech(), Decision: enttypes.StatusAccepted, DecisionTime: uint64(GenesisTS) - 5})
		}
		eg.PurchaseOrders = append(eg.PurchaseOrders, po)
	}
	eg.TotalLocked = sdk.NewInt64Coin(k.Ent.Denom, 0)
	eg.TotalSpent = sdk.NewInt64Coin(k.Ent.Denom, 0)
	for _, w := range k.Whitelist {
		eg.Whitelist = append(eg.Whitelist, actors[w].Bech())
	}
	if k.WhitelistGov {
		eg.Whitelist = append(eg.Whitelist, ModuleAddr(govtypes.ModuleName).String())
	}
	if k.UnbackedLocked != "" {
		c := sdk.NewCoin(k.Ent.Denom, mustInt(k.UnbackedLocked))
		eg.TotalLocked = c
		eg.LockedUnd = append(eg.LockedUnd, enttypes.LockedUnd{Owner: actors[3].Bech(), Amount: c})
	}
	gs[enttypes.ModuleName] = cdc.MustMarshalJSON(eg)

	wg := wrkchaintypes.DefaultGenesisState()
	wg.Params = wrkchaintypes.NewParams(k.Wrk.FeeReg, k.Wrk.FeeRec, k.Wrk.FeePur, k.Wrk.Denom, k.Wrk.DefLimit, k.Wrk.MaxLimit)
	switch k.BadGenesisParams {
	case "wrk:denom":
		wg.Params.Denom = "1x"
	case "wrk:fee":
		wg.Params.FeeRecord = 0
	case "wrk:limit":
		wg.Params.DefaultStorageLimit = wg.Params.MaxStorageLimit + 1
	}
	wg.StartingWrkchainId = k.StartWrk
	genOwner := func(i int) string {
		if i == 1 && k.GenesisRegUpper {
			return strings.ToUpper(actors[3].Bech())
		}
		return BigRegOwner().String()
	}
	for j := 1; j <= k.ManyRegs; j++ {
		i := j
		if k.ManyRegs%2 == 0 {
			i = k.ManyRegs + 1 - j // a hand-assembled document need not list them in ascending order
		}
		wg.RegisteredWrkchains = append(wg.RegisteredWrkchains, wrkchaintypes.WrkChainExport{
			Wrkchain:     wrkchaintypes.WrkChain{WrkchainId: uint64(i), Moniker: fmt.Sprintf("gen-%d", i), Name: "from genesis", Genesis: fmt.Sprintf("G%X", i*31), Type: "geth", RegTime: uint64(GenesisTS) - 100, Owner: genOwner(i)},
			InStateLimit: k.Wrk.DefLimit})
	}
	if k.BigReg != nil && k.BigReg.Kind == "wrk" && k.StartWrk >= 2 {
		n := k.BigReg.N
		blocks := make(wrkchaintypes.WrkChainBlockGenesisExports, 0, n)
		for h := uint64(1); h <= n; h++ {
			blocks = append(blocks, wrkchaintypes.WrkChainBlockGenesisExport{He: h, Bh: fmt.Sprintf("b%x", h*2654435761), Ph: fmt.Sprintf("p%x", h), H1: "1", H2: "", H3: fmt.Sprintf("%d", h%7), St: uint64(GenesisTS) - n + h})
		}
		wg.RegisteredWrkchains = append(wg.RegisteredWrkchains, wrkchaintypes.WrkChainExport{
			Wrkchain:     wrkchaintypes.WrkChain{WrkchainId: k.StartWrk - 1, Moniker: "bigreg", Name: "many records", Genesis: "g", Type: "geth", Lastblock: n, NumBlocks: n, LowestHeight: 1, RegTime: uint64(GenesisTS) - n - 1, Owner: BigRegOwner().String()},
			InStateLimit: n + 1000, Blocks: blocks})
	}
	gs[wrkchaintypes.ModuleName] = cdc.MustMarshalJSON(wg)

	bg := beacontypes.DefaultGenesisState()
	bg.Params = beacontypes.NewParams(k.Beacon.FeeReg, k.Beacon.FeeRec, k.Beacon.FeePur, k.Beacon.Denom, k.Beacon.DefLimit, k.Beacon.MaxLimit)
	bg.StartingBeaconId = k.StartBeacon
	for j := 1; j <= k.ManyRegs; j++ {
		i := j
		if k.ManyRegs%2 == 0 {
			i = k.ManyRegs + 1 - j
		}
		bg.RegisteredBeacons = append(bg.RegisteredBeacons, beacontypes.BeaconExport{
			Beacon:       beacontypes.Beacon{BeaconId: uint64(i), Moniker: fmt.Sprintf("gen-%d", i), Name: "from genesis", RegTime: uint64(GenesisTS) - 100, Owner: genOwner(i)},
			InStateLimit: k.Beacon.DefLimit})
	}
	if k.BigReg != nil && k.BigReg.Kind == "bcn" && k.StartBeacon >= 2 {
		n := k.BigReg.N
		ts := make(beacontypes.BeaconTimestampGenesisExports, 0, n)
		for i := uint64(1); i <= n; i++ {
			ts = append(ts, beacontypes.BeaconTimestampGenesisExport{Id: i, T: uint64(GenesisTS) - n + i, H: fmt.Sprintf("h%x", i*2654435761)})
		}
		bg.RegisteredBeacons = append(bg.RegisteredBeacons, beacontypes.BeaconExport{
			Beacon:       beacontypes.Beacon{BeaconId: k.StartBeacon - 1, Moniker: "bigreg", Name: "many timestamps", LastTimestampId: n, FirstIdInState: 1, NumInState: n, RegTime: uint64(GenesisTS) - n - 1, Owner: BigRegOwner().String()},
			InStateLimit: n + 1000, Timestamps: ts})
	}
	switch k.BadGenesisParams {
	case "bcn:denom":
		bg.Params.Denom = ""
	case "bcn:fee":
		bg.Params.FeeRegister = 0
	case "bcn:limit":
		bg.Params.MaxStorageLimit = 0
	}
	gs[beacontypes.ModuleName] = cdc.MustMarshalJSON(bg)

	sg := streamtypes.DefaultGenesis()
	sg.Params = streamtypes.NewParams(math.LegacyMustNewDecFromStr(k.ValFee))
	switch k.BadGenesisParams {
	case "str:above-one":
		sg.Params.ValidatorFee = math.LegacyMustNewDecFromStr("1.000000000000000001")
	case "str:negative":
		sg.Params.ValidatorFee = math.LegacyMustNewDecFromStr("-0.01")
	}
	gs[streamtypes.ModuleName] = cdc.MustMarshalJSON(sg)

	bz, err := json.Marshal(gs)
	if err != nil {
		panic(err)
	}
	return bz, nil
}

// Node is one replica of the application: a durable DB and a volatile app object.
type Node struct {
	Idx    int
	Cfg    NodeCfg
	DB     dbm.DB
	Fault  *FaultDB // nil for the reference node
	App    *app.App
	Height int64 // last committed height as the *node* knows it
	Down   bool
	dir    string
	// crashTorn: the last crash cut a commit in the middle, so the durable height may be either
	// the one before or the one being committed
	crashTorn bool
	dbClosed  bool
	AppOpts   map[string]interface{} // start options shared by every node of the world
	curRec    *BlockRec              // block being executed (for the fault-context measure)
	curK      int
}

func (n *Node) baseOpts() []func(*baseapp.BaseApp) {
	var po pruningtypes.PruningOptions
	switch n.Cfg.Pruning {
	case "everything":
		po = pruningtypes.NewPruningOptions(pruningtypes.PruningEverything)
	case "custom":
		po = pruningtypes.NewCustomPruningOptions(3, 10)
	default:
		po = pruningtypes.NewPruningOptions(pruningtypes.PruningNothing)
	}
	opts := []func(*baseapp.BaseApp){
		baseapp.SetChainID(ChainID),
		baseapp.SetPruning(po),
		baseapp.SetMinGasPrices(n.Cfg.MinGasPrices),
		baseapp.SetIAVLCacheSize(n.Cfg.IAVLCache),
		baseapp.SetIAVLDisableFastNode(n.Cfg.NoFastNode),
	}
	if n.Cfg.InterBlock {
		opts = append(opts, baseapp.SetInterBlockCache(store.NewCommitKVStoreCacheManager()))
	}
	if n.Cfg.Mempool {
		opts = append(opts, baseapp.SetMempool(mempool.NewSenderNonceMempool()))
	}
	return opts
}

// Open creates the volatile application object on the node's durable DB (a process start).
func (n *Node) Open() {
	sealConfig()
	opts := simtestutil.AppOptionsMap{flags.FlagHome: "/nonexistent"}
	for k, v := range n.AppOpts {
		opts[k] = v
	}
	if n.Cfg.MinGasPrices != "" {
		// what the operator writes into app.toml reaches the application both ways
		opts[server.FlagMinGasPrices] = n.Cfg.MinGasPrices
	}
	n.App = app.NewApp(log.NewNopLogger(), n.DB, nil, true, opts, n.baseOpts()...)
	n.Down = false
}

func DefaultRefCfg() NodeCfg {
	return NodeCfg{Pruning: "nothing", IAVLCache: 781250, Backend: "memdb"}
}

// InitChainReq is the (deterministic) InitChain request of the world.
func InitChainReq(appState json.RawMessage) abci.RequestInitChain {
	cp := &tmproto.ConsensusParams{
		Block:     &tmproto.BlockParams{MaxBytes: 2000000, MaxGas: 1000000000},
		Evidence:  simtestutil.DefaultConsensusParams.Evidence,
		Validator: simtestutil.DefaultConsensusParams.Validator,
	}
	return abci.RequestInitChain{
		Time: time.Unix(GenesisTS, 0).UTC(), ChainId: ChainID, ConsensusParams: cp,
		Validators: []abci.ValidatorUpdate{}, AppStateBytes: appState, InitialHeight: 1,
	}
}

// Header for a block as the application sees it.
func MakeHeader(height int64, t time.Time, appHash []byte) tmproto.Header {
	val := ValidatorKey().PubKey().Address()
	return tmproto.Header{ChainID: ChainID, Height: height, Time: t, ProposerAddress: val, AppHash: appHash}
}

func LastCommit() abci.CommitInfo {
	val := ValidatorKey().PubKey().Address()
	return abci.CommitInfo{Votes: []abci.VoteInfo{{Validator: abci.Validator{Address: val, Power: 1000}, SignedLastBlock: true}}}
}

// appOptsOf: the node start options a scenario prescribes (the same on every node of the world).
func appOptsOf(k *Knobs) map[string]interface{} {
	o := map[string]interface{}{}
	if k.InvCheckPeriod > 0 {
		o[server.FlagInvCheckPeriod] = k.InvCheckPeriod
	}
	if k.SkipGenesisInvariants {
		o[crisis.FlagSkipGenesisInvariants] = true
	}
	return o
}
